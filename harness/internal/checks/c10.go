package checks

import (
	"context"
	"fmt"
	"github.com/sdcio/cache/proto/cachepb"
	"github.com/sdcio/data-server/pkg/cache"
	"google.golang.org/protobuf/proto"
	"sort"
	"strings"
	"time"

	"github.com/sdcio/data-server/pkg/config"
	"github.com/sdcio/data-server/pkg/datastore/target"
	sdcpb "github.com/sdcio/sdc-protos/sdcpb"

	"verifharness/internal/core"
	"verifharness/internal/fixture"
	"verifharness/internal/model"
)

// C10: all southbound encodings describe the same change.

type c10 struct {
	h       *hist
	wires   []fixture.Forwarder
	wireErr string
}

// gnmiForwarder: a production gNMI target (target.New: gnmic client, gRPC) with the given encoding, connected to a gNMI
// device on loopback. The device starts from the configuration before the transaction and applies the SetRequest it
// receives; what it holds afterwards is what that encoding denotes on the wire.
func gnmiForwarder(enc string) (fixture.Forwarder, error) {
	dev, err := fixture.NewGNMIDevice()
	if err != nil {
		return fixture.Forwarder{}, err
	}
	sbi := &config.SBI{Type: "gnmi", Address: "127.0.0.1", Port: dev.Port(), GnmiOptions: &config.SBIGnmiOptions{Encoding: enc}}
	tg, err := target.New(context.Background(), "wire-"+enc, sbi, nil)
	if err != nil {
		dev.Close()
		return fixture.Forwarder{}, err
	}
	return fixture.Forwarder{Name: "gnmi/" + enc, Fn: func(ctx context.Context, before map[string]string, src target.TargetSource) (map[string]string, string, error) {
		dev.SetConfig(before)
		mark := dev.NumSets()
		_, err := tg.Set(ctx, src)
		desc := ""
		for _, st := range dev.SetsSince(mark) {
			desc += fixture.DescribeSet(st.Req)
			if st.DecodeErr != "" {
				desc += " [not understood by the device: " + st.DecodeErr + "]"
			}
		}
		return dev.Snapshot(), desc, err
	}}, nil
}

func init() { core.Register(&c10{}) }

func (c *c10) ID() string    { return "C10" }
func (c *c10) Level() string { return "exploration" }
func (c *c10) NumCases(tier string) int {
	if tier == "thorough" {
		return 5000
	}
	return 240
}
func (c *c10) Rule() string {
	return "one case = one PRNG transaction history (as C01: new, updated, deleted, shadowed, defaulted entries; lists with 1-3 keys incl. non-alphabetical key statements; nodes of both modules; leaf-lists; presence containers; every fifth case with choices); for every committed transaction the recording device renders, from the very tree instance it is handed, proto updates/deletes, JSON, JSON_IETF and XML under all 8 option combinations, each with onlyNewOrUpdated true and false (18+2 views). Each view is decoded by an independent decoder into (writes, deleted subtrees) and applied to the device configuration from before the transaction: the resulting configurations must be identical; the full views must denote the same configuration; XML structure is checked (namespace scoping vs. schema module, keys first in key-statement order, element names, delete/remove attribute and its namespace), JSON_IETF module prefixes are checked. distinct = request sequence; non-trivial = some transaction of the history had a payload with both a delete and an update, and a multi-key or augmented node was rendered"
}
func (c *c10) Assumptions() []string {
	return []string{
		"XML is parsed with encoding/xml (its own namespace scoping), JSON with encoding/json; list keys, leaf-lists and modules come from the harness's schema table",
		"'replace' on an element = delete of that element's subtree followed by the writes inside it",
		"same change is decided by effect on the pre-transaction device configuration, not by syntax",
	}
}

func (c *c10) Setup(w *core.Worker) error {
	fixture.Quiet()
	env, err := fixture.NewEnv(w.Scratch)
	if err != nil {
		return err
	}
	c.h = &hist{env: env, owners: []string{"oa", "ob", "oc", "od"}}
	for _, enc := range []string{"proto", "json", "json_ietf"} {
		f, err := gnmiForwarder(enc)
		if err != nil {
			// no loopback gRPC here: the wire comparison is skipped (and counted), the views are still compared
			c.wires = nil
			c.wireErr = fmt.Sprintf("gNMI wire fixture (%s): %v", enc, err)
			break
		}
		c.wires = append(c.wires, f)
	}
	return nil
}

// normalize drops the marker of a presence container that has a child: the child implies the container
// (JSON and XML cannot denote the marker separately).
func normalize(cfg map[string]string) map[string]string {
	for k := range cfg {
		if presenceContainers[k] {
			for o := range cfg {
				if strings.HasPrefix(o, k+"/") {
					delete(cfg, k)
					break
				}
			}
		}
	}
	return cfg
}

func applyChange(before map[string]string, dels []model.Path, writes map[string]string) map[string]string {
	out := map[string]string{}
	for k, v := range before {
		out[k] = v
	}
	for _, d := range dels {
		for k := range out {
			if d.Covers(model.Parse(k)) {
				delete(out, k)
			}
		}
	}
	for k, v := range writes {
		out[k] = v
	}
	return normalize(out)
}

// onlyPresenceMarkersMissing: the only difference is that got lacks presence container markers
func onlyPresenceMarkersMissing(want, got map[string]string) bool {
	n := 0
	for k, v := range want {
		gv, ok := got[k]
		if ok && gv == v {
			continue
		}
		if !ok && presenceContainers[k] {
			n++
			continue
		}
		return false
	}
	for k := range got {
		if _, ok := want[k]; !ok {
			return false
		}
	}
	return n > 0
}

// presenceDeleteWithChildren: the proto view deletes a presence container and writes leaves below it in the same change
func presenceDeleteWithChildren(dels []model.Path, writes map[string]string) bool {
	for _, d := range dels {
		if !presenceContainers[d.String()] {
			continue
		}
		for k := range writes {
			if strings.HasPrefix(k, d.String()+"/") {
				return true
			}
		}
	}
	return false
}

func protoWrites(us []*sdcpb.Update) map[string]string {
	m := map[string]string{}
	for _, u := range us {
		m[model.FromPb(u.GetPath()).String()] = model.TvString(u.GetValue())
	}
	return m
}

// issueKey turns "xml/foo: detail" into the class key
func issueKey(s string) string {
	if i := strings.Index(s, ":"); i > 0 {
		return s[:i]
	}
	return s
}

func (c *c10) RunCase(w *core.Worker, idx int, seed uint64, res *core.CaseResult) {
	rng := core.NewRng(seed)
	poolName := []string{"base+mk+keyonly", "base+mk+extra", "base+mk+extra+keyonly", "base+extra+slashkeys", "base+mk+extra+pres", "base+choice"}[idx%6]
	c.h.pool = poolFor(poolName)
	// (only-intended deletes leave unmanaged nodes of a choice case behind; what is owed to them is not stated)
	c.h.noOrphan = strings.Contains(poolName, "choice")
	run := c.h.start(rng, res, true, true)
	defer run.close()
	run.ds.Dev.Forward = c.wires
	if c.wireErr != "" {
		res.Count("gnmi_wire_fixture_unavailable", 1)
		res.Tracef("%s", c.wireErr)
	}
	res.Tracef("pool=%s", poolName)
	steps := 8
	if w.Tier == "thorough" {
		steps = 14
	}
	nt := false
	stop := func() bool {
		for _, f := range res.Findings {
			if f.Key != "C10/xml-replace-operation-widens-the-change" && f.Key != "C10/xml/deleted-leaf-not-in-its-namespace" && f.Key != "C10/xml-presence-container-delete-drops-the-children-that-remain" {
				return true
			}
		}
		return false
	}
	for s := 0; s < steps && !stop(); s++ {
		step := run.genStep(3)
		if strings.Contains(poolName, "choice") {
			for i := range step {
				if !step[i].Delete {
					oneCasePerIntent(step[i].Vals)
					if len(step[i].Vals) == 0 {
						step[i].Vals = map[string]string{"/ch/other": "o1"}
					}
				}
			}
		}
		res.Tracef("step %d: %s", s, stepString(step))
		nBefore := run.ds.Dev.NumSets()
		if s > 0 && rng.Chance(1, 6) && !strings.Contains(poolName, "choice") {
			// a transaction with a replace intent: the device configuration is replaced by the content of that intent
			// (target_source_replace.go: root delete in proto, operation replace in XML); the renderings handed to the
			// target must denote the same result
			vals := map[string]string{}
			for j := 0; j < 1+rng.Intn(4); j++ {
				l := c.h.pool[rng.Intn(len(c.h.pool))]
				vals[l.XPath] = l.Vals[rng.Intn(len(l.Vals))]
			}
			repl := stepIntent{Owner: "repl", Prio: 2, Vals: vals, Kind: "replace-intent"}
			id := run.nextID() + "r"
			out := run.set(id, nil, &repl, time.Minute, false)
			run.canon = append(run.canon, "REPLACE "+model.SortedMap(vals))
			if out.convErr != nil || out.panicked || out.err != nil || out.rejected {
				res.Inconclusive("C10/replace-intent-refused", "conv=%v err=%v rejected=%v: %s", out.convErr, out.err, out.rejected, model.SortedMap(vals))
				break
			}
			run.ds.TransactionConfirm(run.ctx, id)
			// the device was replaced wholesale; the server's optimistic write-back of the running store only adds what
			// the replace intent says. Let the device report itself (what a sync does) so that the following steps start
			// from a running store that mirrors the device
			{
				cur, _ := fixture.DumpStore(run.ctx, c.h.env.Cache, run.ds.Name, cachepb.Store_CONFIG)
				var dels [][]string
				for k := range cur {
					dels = append(dels, strings.Split(k, ","))
				}
				var upds []*cache.Update
				dev := run.ds.Dev.Snapshot()
				for _, k := range sortedKeys(dev) {
					kind := "string"
					if l, ok := leafIndex(c.h.pool, runningOnly)[k]; ok {
						kind = l.Kind
					} else if len(model.Parse(k)) > 0 {
						kind = keyLeafKind(k)
					}
					b, _ := proto.Marshal(kindTv(kind, dev[k]))
					upds = append(upds, cache.NewUpdate(strings.Split(model.CachePath(model.Parse(k)), ","), b, 0, "", 0))
				}
				c.h.env.Cache.Modify(run.ctx, run.ds.Name, &cache.Opts{Store: cachepb.Store_CONFIG}, dels, nil)
				c.h.env.Cache.Modify(run.ctx, run.ds.Name, &cache.Opts{Store: cachepb.Store_CONFIG}, nil, upds)
			}
			for i, rec := range run.ds.Dev.AllSets() {
				if i < nBefore || rec.Views == nil {
					continue
				}
				c.judge(res, fmt.Sprintf("step %d, Set %d of the transaction with the replace intent %s", s, i-nBefore, model.SortedMap(vals)), rec)
				res.Count("replace_transactions_rendered", 1)
			}
			continue
		}
		if _, ok := run.commit(step); !ok {
			break
		}
		if run.ds.Dev.NumSets() == nBefore {
			continue
		}
		rec := run.ds.Dev.Last()
		if rec.Views == nil {
			continue
		}
		where := fmt.Sprintf("step %d [%s]", s, stepString(step))
		c.judge(res, where, rec)
		res.Count("transactions_rendered", 1)
		res.Count("views_decoded", 20)
		if len(rec.Deletes) > 0 && len(rec.Updates) > 0 {
			for _, u := range rec.Updates {
				p := model.FromPb(u.GetPath()).String()
				if strings.HasPrefix(p, "/peer[") || strings.HasPrefix(p, "/tri[") || strings.HasPrefix(p, "/duo[") || strings.Contains(p, "/b-") {
					nt = true
				}
			}
		}
	}
	res.Hash = core.HashOf(append([]string{poolName, fmt.Sprint(run.initRun)}, run.canon...)...)
	res.NonTrivial = nt
	if idx < 2 {
		res.Sample = map[string]any{"pool": poolName, "history": run.canon}
	}
}

func (c *c10) judge(res *core.CaseResult, where string, rec *fixture.SetRecord) {
	v := rec.Views
	for _, e := range v.Errors {
		if strings.Contains(e, "PANIC") {
			res.Inconclusive("api-panic", "%s: rendering failed: %s", where, e)
		} else {
			res.Violate("C10/view-not-renderable", "%s: %s", where, e)
		}
	}
	if len(v.Errors) > 0 {
		return
	}
	// reference effect: proto view
	var pdels []model.Path
	for _, d := range rec.Deletes {
		pdels = append(pdels, model.FromPb(d))
	}
	pw := protoWrites(rec.Updates)
	want := applyChange(rec.Before, pdels, pw)
	payload := fixture.PayloadKey(rec.Updates, rec.Deletes)

	// the production gNMI target in each encoding: what a device at the far end of the wire holds afterwards
	for _, wr := range rec.Wire {
		if wr.Err != nil {
			res.Violate("C10/gnmi-wire/set-fails", "%s: %s: %v\n  proto: %s\n  on the wire: %s", where, wr.Name, wr.Err, payload, wr.Desc)
			continue
		}
		got := map[string]string{}
		for k, v := range wr.After {
			if v == "true" && emptyLeaves[schemaPathOf(k)] {
				v = "EMPTY"
			}
			got[k] = v
		}
		got = normalize(got)
		if d := fixture.MapDiff(want, got); d != "" {
			key := "C10/gnmi-wire-denotes-different-change"
			if onlyPresenceMarkersMissing(want, got) {
				key = "C10/json-omits-presence-container-whose-children-are-all-removed"
			}
			res.Violate(key, "%s: %s: the device ends up with a different configuration than the proto view denotes: %s\n  proto: %s\n  on the wire: %s", where, wr.Name, d, payload, wr.Desc)
		}
		res.Count("gnmi_wire_requests_compared", 1)
	}
	// JSON / JSON_IETF (onlyNewOrUpdated): the write set
	for name, doc := range map[string]string{"JSON": v.JSON[true], "JSON_IETF": v.JSONIETF[true]} {
		leaves, prefixes, err := model.DecodeJSON([]byte(doc), nil)
		if err != nil {
			res.Violate("C10/json-undecodable", "%s: %s: %v: %s", where, name, err, doc)
			continue
		}
		got := applyChange(rec.Before, pdels, leaves)
		if d := fixture.MapDiff(want, got); d != "" {
			key := "C10/json-denotes-different-writes"
			if onlyPresenceMarkersMissing(want, got) {
				key = "C10/json-omits-presence-container-whose-children-are-all-removed"
			}
			res.Violate(key, "%s: %s (new or updated) applied with the proto deletes gives a different configuration than the proto updates: %s\n  proto: %s\n  %s: %s", where, name, d, payload, name, doc)
		}
		if name == "JSON_IETF" {
			c.checkPrefixes(res, where, leaves, prefixes)
		}
	}
	// XML, all option combinations
	opts := make([]fixture.XMLOpt, 0, len(v.XML))
	for o := range v.XML {
		opts = append(opts, o)
	}
	sort.Slice(opts, func(i, j int) bool { return fmt.Sprint(opts[i]) < fmt.Sprint(opts[j]) })
	fullXML := map[string]map[string]string{}
	replaceReported := false
	presReported := false
	replIntentReported := false
	for _, o := range opts {
		doc := v.XML[o]
		ch, err := model.DecodeXML(doc, model.XMLOpts{HonorNS: o.HonorNS, OpWithNS: o.OpWithNS, UseRemove: o.UseRemove})
		if err != nil {
			res.Violate("C10/xml-undecodable", "%s: XML %+v: %v: %s", where, o, err, doc)
			continue
		}
		seen := map[string]bool{}
		for _, is := range ch.Issues {
			k := issueKey(is)
			if !seen[k] {
				seen[k] = true
				res.Violate("C10/"+k, "%s: XML %+v: %s\n  document: %s", where, o, is, doc)
			}
		}
		if o.OnlyNew {
			got := applyChange(rec.Before, ch.Deletes, ch.Writes)
			if d := fixture.MapDiff(want, got); d != "" {
				key := "C10/xml-denotes-different-change"
				rootDelete := false
				for _, pd := range pdels {
					if len(pd) == 0 {
						rootDelete = true
					}
				}
				if rootDelete && !strings.Contains(doc, "replace") {
					// the proto view of a replace intent deletes from the root; the XML view was meant to carry
					// operation="replace" but the document says nothing of the kind
					key = "C10/xml-of-a-replace-intent-does-not-replace"
					if replIntentReported {
						continue
					}
					replIntentReported = true
				} else if presenceDeleteWithChildren(pdels, pw) {
					key = "C10/xml-presence-container-delete-drops-the-children-that-remain"
					if presReported {
						continue
					}
					presReported = true
				} else if strings.Contains(doc, `operation="replace"`) {
					key = "C10/xml-replace-operation-widens-the-change"
					if replaceReported {
						continue
					}
					replaceReported = true
				}
				res.Violate(key, "%s: XML %+v denotes a different change than the proto view: %s\n  proto: %s\n  xml: %s", where, o, d, payload, doc)
			}
		} else {
			fullXML[fmt.Sprint(o)] = normalize(ch.Writes)
		}
	}
	// full views (onlyNewOrUpdated=false; not used southbound): JSON, JSON_IETF and the 8 XML renderings must denote the same configuration
	if len(rec.Deletes) > 0 {
		// a tree that carries deletions has no agreed full rendering (XML shows delete operations, JSON the values that are about to go)
		return
	}
	var ref map[string]string
	refName := ""
	for _, name := range []string{"JSON", "JSON_IETF"} {
		doc := v.JSON[false]
		if name == "JSON_IETF" {
			doc = v.JSONIETF[false]
		}
		leaves, _, err := model.DecodeJSON([]byte(doc), nil)
		if err != nil {
			res.Violate("C10/json-undecodable", "%s: %s(full): %v", where, name, err)
			continue
		}
		leaves = normalize(leaves)
		if ref == nil {
			ref, refName = leaves, name
		} else if d := fixture.MapDiff(ref, leaves); d != "" {
			res.Violate("C10/full-views-differ", "%s: full view %s differs from %s: %s", where, name, refName, d)
		}
	}
	xk := make([]string, 0, len(fullXML))
	for k := range fullXML {
		xk = append(xk, k)
	}
	sort.Strings(xk)
	for _, k := range xk {
		if ref == nil {
			break
		}
		if d := fixture.MapDiff(ref, fullXML[k]); d != "" {
			res.Violate("C10/full-views-differ", "%s: full view XML %s differs from %s: %s", where, k, refName, d)
			break
		}
	}
}

func (c *c10) checkPrefixes(res *core.CaseResult, where string, leaves, prefixes map[string]string) {
	// every member whose module differs from its parent's (or that is top level) must carry the module prefix; a prefix must name the right module
	need := map[string]string{}
	for k := range leaves {
		p := model.Parse(k)
		parentMod := ""
		sp := ""
		for _, e := range p {
			sp += "/" + e.Name
			mod := model.ModuleOfSchemaPath(sp)
			if mod != parentMod {
				need[sp] = mod
			}
			parentMod = mod
		}
	}
	for sp, mod := range need {
		if got, ok := prefixes[sp]; !ok {
			res.Violate("C10/json-ietf-module-prefix-missing", "%s: member %s belongs to module %s but carries no prefix", where, sp, mod)
		} else if got != mod {
			res.Violate("C10/json-ietf-wrong-module-prefix", "%s: member %s carries prefix %s, its module is %s", where, sp, got, mod)
		}
	}
	for sp, got := range prefixes {
		if mod := model.ModuleOfSchemaPath(sp); got != mod {
			res.Violate("C10/json-ietf-wrong-module-prefix", "%s: member %s carries prefix %s, its module is %s", where, sp, got, mod)
		}
	}
}
