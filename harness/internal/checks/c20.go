package checks

import (
	"context"
	"encoding/json"
	"fmt"
	gnmi "github.com/openconfig/gnmi/proto/gnmi"
	"github.com/sdcio/cache/proto/cachepb"
	"github.com/sdcio/data-server/pkg/cache"
	"os"
	"regexp"
	"runtime/debug"
	"strings"
	"time"

	"github.com/sdcio/data-server/pkg/config"
	"github.com/sdcio/data-server/pkg/datastore"
	schemaClient "github.com/sdcio/data-server/pkg/datastore/clients/schema"
	"github.com/sdcio/data-server/pkg/datastore/target"
	"github.com/sdcio/data-server/pkg/server"
	"github.com/sdcio/data-server/pkg/utils"
	sdcpb "github.com/sdcio/sdc-protos/sdcpb"
	"google.golang.org/protobuf/proto"
	"google.golang.org/protobuf/types/known/anypb"

	"verifharness/internal/core"
	"verifharness/internal/fixture"
	"verifharness/internal/model"
)

// C20: no request or device message crashes the server.

type c20 struct {
	env *fixture.Env
}

func init() { core.Register(&c20{}) }

var c20Families = []string{"path-strings", "element-sequences", "set-typed-values", "set-json-documents", "set-path-mutations", "rpc-requests", "sync-notifications", "netconf-xml", "stateful-histories", "gnmi-wire-notifications", "datastore-management"}

func (c *c20) ID() string    { return "C20" }
func (c *c20) Level() string { return "exploration" }
func (c *c20) NumCases(tier string) int {
	if tier == "thorough" {
		return 16000
	}
	return 640
}
func (c *c20) batch(tier string) int {
	if tier == "thorough" {
		return 60
	}
	return 40
}
func (c *c20) Rule() string {
	return "one case = a batch of PRNG inputs for one entry-point family: path strings (ParsePath, CompletePath, ToStrings, StripPathElemPrefix), element sequences (SchemaClientBound.ToPath), TransactionSet through the Server handler with every typed-value kind against every leaf type, with JSON / JSON_IETF documents against every container (grammar-valid and structure-aware mutations: wrong JSON type at a node, missing / duplicated keys, leaf where a container is expected, deep nesting, huge / negative numbers), with mutated paths, flags, names and priorities; GetData / Subscribe / WatchDeviations / Confirm / Cancel / GetIntent requests; gNMI-style sync notifications through the sync loop; hostile gNMI notifications from a gNMI device on loopback through the production gNMI target (stream and Get) and the sync loop; NETCONF XML replies through the production NETCONF target's Get (XML2sdcpb adapter); CreateDataStore / ListDataStore / Discard / DeleteDataStore with arbitrary target and sync settings towards live loopback devices; valid multi-owner transaction histories with leaf-lists of different lengths on a device whose running values drift, with deviation cycles in between. Every request / device message is marshalled and unmarshalled first (only wire-reachable shapes count). The only allowed outcomes are a response or an error: a recovered panic, a dead worker process (panic in a goroutine of the code under test, fatal error, stack overflow) and a call that does not return within 10 s (confirmed by a second run) are violations. distinct = family + inputs; non-trivial = the batch produced at least 3 different outcomes (different error texts / success)"
}
func (c *c20) Assumptions() []string {
	return []string{
		"handlers are called in-process on a Server built by the verif constructor with a context that carries peer information, as gRPC always does; interceptors (ready / timeout) are not in the path",
		"panic sites are keyed by entry-point family + innermost data-server function + panic kind",
	}
}

func (c *c20) Setup(w *core.Worker) error {
	fixture.Quiet()
	env, err := fixture.NewEnv(w.Scratch)
	c.env = env
	return err
}

var frameRe = regexp.MustCompile(`github\.com/sdcio/data-server/pkg/([A-Za-z0-9_/.\-]+)\.(\(?[\w\*\)\.]+)`)

func panicKind(msg string) string {
	switch {
	case strings.Contains(msg, "nil pointer dereference"):
		return "nil-dereference"
	case strings.Contains(msg, "index out of range"):
		return "index-out-of-range"
	case strings.Contains(msg, "slice bounds out of range"):
		return "slice-bounds"
	case strings.Contains(msg, "interface conversion"):
		return "type-assertion"
	case strings.Contains(msg, "close of closed channel"), strings.Contains(msg, "send on closed channel"):
		return "channel-misuse"
	case strings.Contains(msg, "stack overflow"), strings.Contains(msg, "goroutine stack exceeds"):
		return "stack-overflow"
	case strings.Contains(msg, "concurrent map"):
		return "concurrent-map-access"
	}
	return "other"
}

// innermostFrame finds the first data-server function below the panic in a stack trace.
func innermostFrame(stack string) string {
	lines := strings.Split(stack, "\n")
	seenPanic := false
	for _, l := range lines {
		if strings.HasPrefix(l, "panic(") || strings.Contains(l, "runtime.gopanic") || strings.Contains(l, "runtime.panic") || strings.Contains(l, "runtime.sigpanic") {
			seenPanic = true
			continue
		}
		if !seenPanic {
			continue
		}
		if m := frameRe.FindStringSubmatch(l); m != nil && !strings.Contains(l, "verifhook") {
			f := m[1] + "." + m[2]
			f = strings.TrimSuffix(f, "(")
			return f
		}
	}
	for _, l := range lines {
		if m := frameRe.FindStringSubmatch(l); m != nil && !strings.Contains(l, "verifhook") {
			return strings.TrimSuffix(m[1]+"."+m[2], "(")
		}
	}
	return "unknown"
}

func (c *c20) CaseTimeout(tier string) time.Duration { return 90 * time.Second }

func (c *c20) CrashKey(tail string) (string, bool) {
	if strings.Contains(tail, "CASE-WATCHDOG ") {
		// the case did not end: name the data-server function a goroutine is busy in
		busy := "?"
		for _, blk := range strings.Split(tail, "\n\n") {
			head := blk
			if i := strings.IndexByte(head, '\n'); i > 0 {
				head = head[:i]
			}
			if (strings.Contains(head, "[running]") || strings.Contains(head, "[runnable]")) && strings.Contains(blk, "github.com/sdcio/data-server/") {
				busy = innermostFrame(blk)
				break
			}
		}
		return "C20/hang/case-does-not-end@" + busy, true
	}
	if !strings.Contains(tail, "panic:") && !strings.Contains(tail, "fatal error:") {
		return "", false
	}
	first := tail
	if i := strings.IndexByte(first, '\n'); i > 0 {
		first = first[:i]
	}
	return fmt.Sprintf("C20/process-died/%s@%s", panicKind(tail), innermostFrame(tail)), true
}

type c20run struct {
	c        *c20
	res      *core.CaseResult
	family   string
	outcomes map[string]bool
}

// call executes one call of the code under test; only "returned" and "returned an error" are allowed.
func (r *c20run) call(entry, input string, f func() error) {
	core.Progress()
	fmt.Fprintf(os.Stderr, "VERIF-INPUT %s %s: %s\n", r.family, entry, input)
	type outcome struct {
		err   error
		panic string
		stack string
	}
	done := make(chan outcome, 1)
	go func() {
		defer func() {
			if p := recover(); p != nil {
				done <- outcome{panic: fmt.Sprint(p), stack: string(debug.Stack())}
			}
		}()
		done <- outcome{err: f()}
	}()
	r.res.Count("calls", 1)
	r.res.Count("calls:"+r.family, 1)
	select {
	case o := <-done:
		if o.panic != "" {
			key := fmt.Sprintf("C20/panic/%s/%s@%s", r.family, panicKind(o.panic), innermostFrame(o.stack))
			st := o.stack
			if len(st) > 2500 {
				st = st[:2500]
			}
			r.res.Violate(key, "%s panicked: %s\n  input: %s\n%s", entry, o.panic, input, st)
			r.outcomes["panic"] = true
			return
		}
		if o.err != nil {
			e := o.err.Error()
			if len(e) > 60 {
				e = e[:60]
			}
			r.outcomes[entry+":"+e] = true
		} else {
			r.outcomes[entry+":ok"] = true
		}
	case <-time.After(10 * time.Second):
		// confirm once more in isolation (second chance for a loaded machine)
		done2 := make(chan struct{})
		go func() {
			defer func() { recover(); close(done2) }()
			f()
		}()
		select {
		case <-done2:
			r.res.Inconclusive("C20/slow-call", "%s took longer than 10 s once, returned on the second run\n  input: %s", entry, input)
		case <-time.After(10 * time.Second):
			r.res.Violate(fmt.Sprintf("C20/hang/%s/%s", r.family, entry), "%s did not return within 10 s (twice)\n  input: %s", entry, input)
		}
	}
}

// roundTrip marshals and unmarshals a message: only wire-reachable shapes count.
func roundTrip[T proto.Message](m T) T {
	b, err := proto.Marshal(m)
	if err != nil {
		return m
	}
	n := m.ProtoReflect().New().Interface().(T)
	if err := proto.Unmarshal(b, n); err != nil {
		return m
	}
	return n
}

var c20SchemaPaths = []string{
	"/sys/descr", "/sys/mtu", "/sys/dns", "/sys/log/level", "/sys/b-leaf", "/sys/b-cont/bl[k=k1]/v", "/if[name=e1]/mtu", "/if[name=e1]/enabled", "/if[name=e1]/cfg/speed",
	"/if[name=e1]/unit[id=1]/vlan", "/peer[name=n1][zone=z1]/as", "/peer[name=n1][zone=z1]/via", "/tri[a=k][b=1][c=x]/v", "/duo[k1=a][k2=b]/v", "/pres", "/pres/a", "/pres2",
	"/ch/alpha", "/ch/alpha-c/x", "/ch/gamma", "/ch/delta/z", "/svc[id=s1]/vlan", "/svc[id=s1]/ip4", "/cons/rng-s", "/cons/len", "/cons/pat", "/cons/mm", "/cons/mand/must-have",
	"/cons/mlist[k=x]/req", "/cons/lref", "/cons/lrefs", "/cons/lref-rel", "/cons/mst/b", "/types/i8", "/types/i64", "/types/u8", "/types/u64", "/types/d1", "/types/d2", "/types/d18",
	"/types/bool", "/types/emp", "/types/str", "/types/en", "/types/idref", "/types/un1", "/types/un2", "/types/bits", "/types/bin", "/types/lr", "/types/pct",
	"/types/ll-str", "/types/ll-u64", "/types/ll-d2", "/types/ll-idref", "/types/ll-bool", "/stats/rx", "/if[name=e1]/oper-state", "/verif-barrier", "/ifx",
	"/sys", "/if[name=e1]", "/if", "/types", "/cons", "/ch", "/", "/peer[name=n1][zone=z1]/timers",
}

func c20Tv(rng *core.Rng) (*sdcpb.TypedValue, string) {
	strs := []string{"", "a", "5", "-5", "1.5", "1.50", "1.", ".5", "1.2.3", "true", "TRUE", "18446744073709551616", "-9223372036854775809", "auto", "id-one", "vft:id-one", "x:id-one", ":",
		"b0 b7", "aGVsbG8=", " ", "0x10", "1e3", "NaN", "{}", "[]", "null", strings.Repeat("9", 40), "e1", "no-such-if"}
	s := strs[rng.Intn(len(strs))]
	switch rng.Intn(17) {
	case 0:
		return &sdcpb.TypedValue{Value: &sdcpb.TypedValue_StringVal{StringVal: s}}, "string:" + s
	case 1:
		n := []int64{0, -1, 1, 127, 128, -129, 1 << 40, -1 << 63, 1<<63 - 1}[rng.Intn(9)]
		return &sdcpb.TypedValue{Value: &sdcpb.TypedValue_IntVal{IntVal: n}}, fmt.Sprint("int:", n)
	case 2:
		n := []uint64{0, 1, 255, 256, 65536, 1 << 63, 1<<64 - 1}[rng.Intn(7)]
		return &sdcpb.TypedValue{Value: &sdcpb.TypedValue_UintVal{UintVal: n}}, fmt.Sprint("uint:", n)
	case 3:
		return &sdcpb.TypedValue{Value: &sdcpb.TypedValue_BoolVal{BoolVal: rng.Bool()}}, "bool"
	case 4:
		return &sdcpb.TypedValue{Value: &sdcpb.TypedValue_BytesVal{BytesVal: []byte(s)}}, "bytes:" + s
	case 5:
		return &sdcpb.TypedValue{Value: &sdcpb.TypedValue_FloatVal{FloatVal: 1.5}}, "float"
	case 6:
		return &sdcpb.TypedValue{Value: &sdcpb.TypedValue_DoubleVal{DoubleVal: -2.25}}, "double"
	case 7:
		d := &sdcpb.Decimal64{Digits: []int64{0, 15, -150, 1<<63 - 1}[rng.Intn(4)], Precision: []uint32{0, 1, 2, 18, 40, 1 << 16, 1<<32 - 1}[rng.Intn(7)]}
		return &sdcpb.TypedValue{Value: &sdcpb.TypedValue_DecimalVal{DecimalVal: d}}, fmt.Sprintf("decimal:%d/%d", d.Digits, d.Precision)
	case 8:
		arr := &sdcpb.ScalarArray{}
		n := rng.Intn(4)
		for i := 0; i < n; i++ {
			e, _ := c20Tv(rng)
			if e == nil {
				continue
			}
			if _, isLL := e.Value.(*sdcpb.TypedValue_LeaflistVal); !isLL {
				arr.Element = append(arr.Element, e)
			}
		}
		return &sdcpb.TypedValue{Value: &sdcpb.TypedValue_LeaflistVal{LeaflistVal: arr}}, fmt.Sprintf("leaflist(%d)", len(arr.Element))
	case 9:
		return &sdcpb.TypedValue{Value: &sdcpb.TypedValue_AnyVal{AnyVal: &anypb.Any{TypeUrl: "x", Value: []byte(s)}}}, "any"
	case 10:
		return &sdcpb.TypedValue{Value: &sdcpb.TypedValue_JsonVal{JsonVal: []byte(s)}}, "json:" + s
	case 11:
		return &sdcpb.TypedValue{Value: &sdcpb.TypedValue_JsonIetfVal{JsonIetfVal: []byte(`"` + s + `"`)}}, "jsonietf:" + s
	case 12:
		return &sdcpb.TypedValue{Value: &sdcpb.TypedValue_AsciiVal{AsciiVal: s}}, "ascii:" + s
	case 13:
		return &sdcpb.TypedValue{Value: &sdcpb.TypedValue_ProtoBytes{ProtoBytes: []byte(s)}}, "protobytes"
	case 14:
		return &sdcpb.TypedValue{Value: &sdcpb.TypedValue_EmptyVal{}}, "empty"
	case 15:
		return &sdcpb.TypedValue{Value: &sdcpb.TypedValue_IdentityrefVal{IdentityrefVal: &sdcpb.IdentityRef{Value: s}}}, "identityref:" + s
	}
	return nil, "<no value>"
}

// c20GNMINotification draws a gNMI notification: the hostile shapes of the sync-notifications family carried over to gNMI
// (paths, values) plus the shapes only gNMI has.
func c20GNMINotification(rng *core.Rng) (*gnmi.Notification, string) {
	gn := &gnmi.Notification{Timestamp: int64(rng.Intn(3))}
	d := []string{}
	gpath := func(p *sdcpb.Path) *gnmi.Path {
		out := &gnmi.Path{Origin: p.GetOrigin(), Target: p.GetTarget()}
		for _, e := range p.GetElem() {
			out.Elem = append(out.Elem, &gnmi.PathElem{Name: e.GetName(), Key: e.GetKey()})
		}
		switch rng.Intn(14) {
		case 0:
			out.Element = []string{"sys", "descr"} // deprecated string elements next to elem
		case 1:
			out.Elem, out.Element = nil, []string{"sys", "name"}
		case 2:
			out.Origin = "openconfig"
		case 3:
			out.Target = "dev1"
		case 4:
			out.Elem = append(out.Elem, nil)
		}
		return out
	}
	var gval func(tv *sdcpb.TypedValue) *gnmi.TypedValue
	gval = func(tv *sdcpb.TypedValue) *gnmi.TypedValue {
		switch v := tv.GetValue().(type) {
		case *sdcpb.TypedValue_FloatVal:
			return &gnmi.TypedValue{Value: &gnmi.TypedValue_FloatVal{FloatVal: v.FloatVal}}
		case *sdcpb.TypedValue_DoubleVal:
			return &gnmi.TypedValue{Value: &gnmi.TypedValue_DoubleVal{DoubleVal: v.DoubleVal}}
		case *sdcpb.TypedValue_AnyVal:
			return &gnmi.TypedValue{Value: &gnmi.TypedValue_AnyVal{AnyVal: v.AnyVal}}
		case *sdcpb.TypedValue_AsciiVal:
			return &gnmi.TypedValue{Value: &gnmi.TypedValue_AsciiVal{AsciiVal: v.AsciiVal}}
		case *sdcpb.TypedValue_ProtoBytes:
			return &gnmi.TypedValue{Value: &gnmi.TypedValue_ProtoBytes{ProtoBytes: v.ProtoBytes}}
		case *sdcpb.TypedValue_EmptyVal:
			return &gnmi.TypedValue{Value: &gnmi.TypedValue_BoolVal{BoolVal: true}}
		case *sdcpb.TypedValue_LeaflistVal:
			arr := &gnmi.ScalarArray{}
			for _, e := range v.LeaflistVal.GetElement() {
				arr.Element = append(arr.Element, gval(e))
			}
			if rng.Chance(1, 6) {
				arr.Element = append(arr.Element, nil)
			}
			return &gnmi.TypedValue{Value: &gnmi.TypedValue_LeaflistVal{LeaflistVal: arr}}
		case nil:
			if rng.Bool() {
				return nil
			}
			return &gnmi.TypedValue{}
		}
		return toGnmiTv(tv)
	}
	k := 1 + rng.Intn(3)
	if rng.Chance(1, 8) {
		k = 0
	}
	for j := 0; j < k; j++ {
		p := mutatePath(rng, c20SchemaPaths[rng.Intn(len(c20SchemaPaths))])
		switch rng.Intn(6) {
		case 0:
			gn.Delete = append(gn.Delete, gpath(p))
			d = append(d, fmt.Sprintf("del %v", p))
		case 1:
			paths := []string{"/sys", "/if[name=e1]", "/types", "/cons", "/"}
			bp := paths[rng.Intn(len(paths))]
			var v any
			json.Unmarshal([]byte(c20Docs[bp]), &v)
			if rng.Bool() {
				v = mutateJSON(rng, v, 0)
			}
			doc, _ := json.Marshal(v)
			val := &gnmi.TypedValue{Value: &gnmi.TypedValue_JsonVal{JsonVal: doc}}
			if rng.Bool() {
				val = &gnmi.TypedValue{Value: &gnmi.TypedValue_JsonIetfVal{JsonIetfVal: doc}}
			}
			gn.Update = append(gn.Update, &gnmi.Update{Path: gpath(model.Parse(bp).ToPb()), Val: val})
			d = append(d, fmt.Sprintf("%s=JSON %s", bp, doc))
		case 2:
			// a leaf-list element reported as key, no value
			lp := model.Parse([]string{"/sys/dns", "/if[name=e1]/addrs", "/types/ll-u64", "/sys/descr"}[rng.Intn(4)])
			lp[len(lp)-1].Keys = map[string]string{lp[len(lp)-1].Name: []string{"a", "", "5", "x y"}[rng.Intn(4)]}
			gn.Update = append(gn.Update, &gnmi.Update{Path: gpath(lp.ToPb())})
			d = append(d, fmt.Sprintf("%s (as key, no value)", lp))
		default:
			tv, tvd := c20Tv(rng)
			gn.Update = append(gn.Update, &gnmi.Update{Path: gpath(p), Val: gval(tv), Duplicates: uint32(rng.Intn(2))})
			d = append(d, fmt.Sprintf("%v=%s", p, tvd))
		}
	}
	switch rng.Intn(10) {
	case 0:
		gn.Prefix = &gnmi.Path{Elem: []*gnmi.PathElem{{Name: "sys"}}}
		d = append(d, "prefix /sys")
	case 1:
		gn.Prefix = &gnmi.Path{Origin: "vfa", Target: "dev1"}
		d = append(d, "prefix origin/target")
	case 2:
		gn.Prefix = &gnmi.Path{Elem: []*gnmi.PathElem{{Name: "if", Key: map[string]string{"name": "e1"}}, nil}}
		d = append(d, "prefix with a nil element")
	case 3:
		gn.Atomic = true
	case 4:
		gn.Update = append(gn.Update, nil)
		d = append(d, "nil update")
	case 5:
		gn.Delete = append(gn.Delete, nil)
		d = append(d, "nil delete")
	}
	return gn, strings.Join(d, " ; ")
}

func mutatePath(rng *core.Rng, p string) *sdcpb.Path {
	mp := model.Parse(p)
	pb := mp.ToPb()
	if len(pb.Elem) == 0 {
		return pb
	}
	i := rng.Intn(len(pb.Elem))
	switch rng.Intn(9) {
	case 0: // drop a key
		for k := range pb.Elem[i].Key {
			delete(pb.Elem[i].Key, k)
			break
		}
	case 1: // extra key
		if pb.Elem[i].Key == nil {
			pb.Elem[i].Key = map[string]string{}
		}
		pb.Elem[i].Key["bogus"] = "x"
	case 2: // unknown element
		pb.Elem[i].Name = "nope"
	case 3: // empty name
		pb.Elem[i].Name = ""
	case 4: // truncated
		pb.Elem = pb.Elem[:i]
	case 5: // extra trailing element
		pb.Elem = append(pb.Elem, &sdcpb.PathElem{Name: "descr"})
	case 6: // key with empty value / odd value
		for k := range pb.Elem[i].Key {
			pb.Elem[i].Key[k] = []string{"", "a,b", "a/b", "*", "[", "\x00", strings.Repeat("k", 300)}[rng.Intn(7)]
			break
		}
	case 7: // module prefix
		pb.Elem[i].Name = "vfa:" + pb.Elem[i].Name
		pb.Origin = "vfa"
	case 8: // unchanged
	}
	return pb
}

var c20Docs = map[string]string{
	"/sys":                    `{"descr":"a","name":"r1","mtu":1500,"dns":["a","b"],"log":{"level":"warn","host":"h"},"b-leaf":"x","b-cont":{"x":"y","bl":[{"k":"k1","v":"v"}]}}`,
	"/if[name=e1]":            `{"mtu":1500,"enabled":true,"descr":"d","cfg":{"speed":"auto"},"unit":[{"id":1,"vlan":10,"descr":"u"}]}`,
	"/if":                     `[{"name":"e1","mtu":1500},{"name":"e2","descr":"x"}]`,
	"/types":                  `{"i8":-1,"u64":"18446744073709551615","d2":"1.50","bool":true,"emp":[null],"en":"one","idref":"vft:id-one","un1":5,"un2":"1.5","bits":"b0","ll-u64":["1","2"],"ll-bool":[true,false]}`,
	"/cons":                   `{"rng-s":-5,"len":"abc","pat":"abc","mm":[1,2],"mand":{"must-have":"x"},"mlist":[{"k":"a","req":"r"}],"lref":"e1","mst":{"a":"on","b":"x"}}`,
	"/ch":                     `{"alpha":"a","alpha-c":{"x":"1"},"other":"o"}`,
	"/svc[id=s1]":             `{"descr":"d","vrf":"r","ip4":"1.1.1.1"}`,
	"/peer[name=n1][zone=z1]": `{"as":65000,"timers":{"hold":30,"keep":10}}`,
	"/":                       `{"sys":{"descr":"a"},"if":[{"name":"e1","mtu":9000}],"ifx":"s"}`,
	"/pres":                   `{}`,
	"/tri[a=k][b=1][c=x]":     `{"v":"p","w":"q"}`,
	"/sys/b-cont/bl[k=k1]":    `{"v":"x"}`,
	"/if[name=e1]/unit[id=1]": `{"vlan":10}`,
	"/cons/mlist[k=x]":        `{"req":"r","opt":"o"}`,
	"/cons/mand":              `{"must-have":"x"}`,
	"/duo":                    `[{"k1":"a","k2":"b","v":"x"}]`,
	"/if[name=e1]/cfg":        `{"speed":"full","b-flag":true}`,
}

func mutateJSON(rng *core.Rng, v any, depth int) any {
	repl := []any{nil, true, 42.0, -1.0, 1e30, "str", "", map[string]any{}, []any{}, []any{nil}, map[string]any{"x": "y"}, []any{1.0, "a"}}
	switch x := v.(type) {
	case map[string]any:
		if len(x) == 0 || rng.Chance(1, 6) {
			return repl[rng.Intn(len(repl))]
		}
		keys := make([]string, 0, len(x))
		for k := range x {
			keys = append(keys, k)
		}
		sortStrings(keys)
		k := keys[rng.Intn(len(keys))]
		switch rng.Intn(5) {
		case 0:
			delete(x, k)
		case 1:
			x["nope"] = x[k]
		case 2:
			x[k] = repl[rng.Intn(len(repl))]
		default:
			x[k] = mutateJSON(rng, x[k], depth+1)
		}
		return x
	case []any:
		if len(x) == 0 || rng.Chance(1, 5) {
			return repl[rng.Intn(len(repl))]
		}
		i := rng.Intn(len(x))
		if rng.Chance(1, 4) {
			return append(x, x[i])
		}
		x[i] = mutateJSON(rng, x[i], depth+1)
		return x
	}
	return repl[rng.Intn(len(repl))]
}

func sortStrings(s []string) {
	for i := 1; i < len(s); i++ {
		for j := i; j > 0 && s[j] < s[j-1]; j-- {
			s[j], s[j-1] = s[j-1], s[j]
		}
	}
}

func deepJSON(n int) []byte {
	return []byte(strings.Repeat(`{"log":`, n) + `"x"` + strings.Repeat(`}`, n))
}

func (c *c20) RunCase(w *core.Worker, idx int, seed uint64, res *core.CaseResult) {
	rng := core.NewRng(seed)
	family := c20Families[idx%len(c20Families)]
	r := &c20run{c: c, res: res, family: family, outcomes: map[string]bool{}}
	n := c.batch(w.Tier)
	ctx := context.Background()
	inputs := []string{}
	note := func(s string) {
		if len(inputs) < 400 {
			inputs = append(inputs, s)
		}
	}
	scb := schemaClient.NewSchemaClientBound(fixture.SchemaConfig().GetSchema(), c.env.Schema)
	switch family {
	case "path-strings":
		alpha := []string{"/", "[", "]", "=", "\\", ":", " ", "a", "if", "name", "e1", "*", ".", "..", "sys", "\"", "'", ","}
		for i := 0; i < n*4; i++ {
			var s string
			if rng.Chance(1, 3) {
				s = c20SchemaPaths[rng.Intn(len(c20SchemaPaths))]
				if len(s) > 1 && rng.Bool() {
					k := rng.Intn(len(s))
					s = s[:k] + alpha[rng.Intn(len(alpha))] + s[k:]
				}
			} else {
				l := rng.Intn(10)
				for j := 0; j < l; j++ {
					s += alpha[rng.Intn(len(alpha))]
				}
			}
			note(s)
			var p *sdcpb.Path
			r.call("ParsePath", fmt.Sprintf("%q", s), func() error {
				var err error
				p, err = utils.ParsePath(s)
				return err
			})
			if p != nil {
				p = roundTrip(p)
				r.call("ToStrings+CompletePath+ToXPath", fmt.Sprintf("%q", s), func() error {
					utils.ToStrings(p, true, false)
					utils.ToXPath(p, false)
					utils.StripPathElemPrefixPath(p)
					_, err := utils.CompletePath(p, p)
					return err
				})
				r.call("SchemaClientBound.GetSchemaSdcpbPath", fmt.Sprintf("%q", s), func() error {
					_, err := scb.GetSchemaSdcpbPath(ctx, p)
					return err
				})
			}
			r.call("StripPathElemPrefix", fmt.Sprintf("%q", s), func() error {
				_, err := utils.StripPathElemPrefix(s)
				return err
			})
		}
	case "element-sequences":
		words := []string{"sys", "descr", "if", "e1", "unit", "1", "peer", "z1", "n1", "as", "tri", "x", "k", "duo", "a", "b", "v", "", "nope", "types", "ll-str", "cons", "mlist", "svc", "s1", "ch", "alpha"}
		for i := 0; i < n*6; i++ {
			l := rng.Intn(7)
			seq := make([]string, l)
			for j := range seq {
				seq[j] = words[rng.Intn(len(words))]
			}
			if rng.Bool() {
				// a valid sequence cut short (keys missing at the end)
				full := strings.Split(model.CachePath(model.Parse(c20SchemaPaths[rng.Intn(len(c20SchemaPaths))])), ",")
				seq = full[:rng.Intn(len(full)+1)]
			}
			note(fmt.Sprintf("%q", seq))
			r.call("SchemaClientBound.ToPath", fmt.Sprintf("%q", seq), func() error {
				_, err := scb.ToPath(ctx, seq)
				return err
			})
			r.call("SchemaClientBound.GetSchemaSlicePath", fmt.Sprintf("%q", seq), func() error {
				_, err := scb.GetSchemaSlicePath(ctx, seq)
				return err
			})
		}
	case "set-typed-values", "set-json-documents", "set-path-mutations", "rpc-requests":
		ds := c.env.NewDS(fixture.DSOpts{})
		defer ds.Close()
		srv := server.NewVerif(ctx, &config.Config{DefaultTransactionTimeout: time.Minute}, c.env.Schema, c.env.Cache, map[string]*datastore.Datastore{ds.Name: ds.Datastore})
		st := fixture.NewFakeStream[*sdcpb.GetDataResponse](ctx)
		pctx := st.Context()
		defer st.Cancel()
		txn := 0
		doSet := func(desc string, req *sdcpb.TransactionSetRequest) {
			req = roundTrip(req)
			txn++
			var rsp *sdcpb.TransactionSetResponse
			r.call("Server.TransactionSet", desc, func() error {
				cctx, cancel := context.WithTimeout(pctx, 3*time.Second)
				defer cancel()
				var err error
				rsp, err = srv.TransactionSet(cctx, req)
				return err
			})
			if desc == "seed content" {
				// content the read requests are meant to find: kept
				r.call("Server.TransactionConfirm", desc, func() error {
					_, err := srv.TransactionConfirm(pctx, &sdcpb.TransactionConfirmRequest{DatastoreName: ds.Name, TransactionId: req.GetTransactionId()})
					return err
				})
				return
			}
			// leave no transaction open
			r.call("Server.TransactionCancel", desc, func() error {
				_, err := srv.TransactionCancel(pctx, &sdcpb.TransactionCancelRequest{DatastoreName: ds.Name, TransactionId: req.GetTransactionId()})
				return err
			})
			_ = rsp
		}
		switch family {
		case "set-typed-values":
			for i := 0; i < n; i++ {
				p := c20SchemaPaths[rng.Intn(len(c20SchemaPaths))]
				tv, tvd := c20Tv(rng)
				desc := fmt.Sprintf("path=%s value=%s", p, tvd)
				note(desc)
				doSet(desc, &sdcpb.TransactionSetRequest{DatastoreName: ds.Name, TransactionId: fmt.Sprintf("t%d", txn), DryRun: rng.Chance(1, 3),
					Intents: []*sdcpb.TransactionIntent{{Intent: "oa", Priority: 10, Update: []*sdcpb.Update{{Path: model.Parse(p).ToPb(), Value: tv}}}}})
			}
		case "set-json-documents":
			paths := make([]string, 0, len(c20Docs))
			for p := range c20Docs {
				paths = append(paths, p)
			}
			sortStrings(paths)
			for i := 0; i < n; i++ {
				p := paths[rng.Intn(len(paths))]
				var doc []byte
				switch rng.Intn(8) {
				case 0:
					doc = []byte(c20Docs[p])
				case 1:
					doc = deepJSON(1 + rng.Intn(3000))
				case 2:
					doc = []byte([]string{``, `{`, `nul`, `"x"`, `5`, `[1,2`, `{"a":}`, `{"descr":"a","descr":"b"}`}[rng.Intn(8)])
				default:
					var v any
					json.Unmarshal([]byte(c20Docs[p]), &v)
					for k := 0; k <= rng.Intn(3); k++ {
						v = mutateJSON(rng, v, 0)
					}
					doc, _ = json.Marshal(v)
				}
				tv := &sdcpb.TypedValue{Value: &sdcpb.TypedValue_JsonVal{JsonVal: doc}}
				if rng.Bool() {
					tv = &sdcpb.TypedValue{Value: &sdcpb.TypedValue_JsonIetfVal{JsonIetfVal: doc}}
				}
				show := string(doc)
				if len(show) > 300 {
					show = show[:300] + fmt.Sprintf("...(%d bytes)", len(doc))
				}
				desc := fmt.Sprintf("path=%s json=%s", p, show)
				note(desc)
				pb := model.Parse(p).ToPb()
				if rng.Chance(1, 8) {
					pb = mutatePath(rng, p)
				}
				if rng.Chance(1, 16) {
					pb = nil // an update whose path field is absent on the wire
					desc = "path=<absent> json=" + show
				}
				doSet(desc, &sdcpb.TransactionSetRequest{DatastoreName: ds.Name, TransactionId: fmt.Sprintf("t%d", txn),
					Intents: []*sdcpb.TransactionIntent{{Intent: "oa", Priority: 10, Update: []*sdcpb.Update{{Path: pb, Value: tv}}}}})
			}
		case "set-path-mutations":
			for i := 0; i < n; i++ {
				p := c20SchemaPaths[rng.Intn(len(c20SchemaPaths))]
				pb := mutatePath(rng, p)
				if rng.Chance(1, 16) {
					pb = nil // path field absent on the wire
				}
				tv, tvd := c20Tv(rng)
				if rng.Chance(1, 2) {
					tv, tvd = strTv("5"), "string:5"
				}
				intent := &sdcpb.TransactionIntent{Intent: []string{"oa", "", "running", "default", "replace", strings.Repeat("n", 500)}[rng.Intn(6)],
					Priority: []int32{10, 0, -1, 1<<31 - 1, -1 << 31}[rng.Intn(5)], Delete: rng.Chance(1, 5), Orphan: rng.Chance(1, 8),
					Update: []*sdcpb.Update{{Path: pb, Value: tv}}}
				if rng.Chance(1, 6) {
					intent.Update = append(intent.Update, intent.Update[0], &sdcpb.Update{Path: nil, Value: tv}, &sdcpb.Update{})
				}
				req := &sdcpb.TransactionSetRequest{DatastoreName: []string{ds.Name, ds.Name, ds.Name, "", "nope"}[rng.Intn(5)], TransactionId: []string{fmt.Sprintf("t%d", txn), ""}[rng.Intn(2)],
					DryRun: rng.Chance(1, 4), Intents: []*sdcpb.TransactionIntent{intent}}
				if rng.Chance(1, 6) {
					req.ReplaceIntent = &sdcpb.TransactionIntent{Intent: "x", Priority: 5, Update: []*sdcpb.Update{{Path: model.Parse("/sys/descr").ToPb(), Value: strTv("r")}}}
				}
				if rng.Chance(1, 6) {
					req.Intents = append(req.Intents, intent, nil2(intent))
				}
				if rng.Chance(1, 5) {
					to := int32([]int{0, -1, 1}[rng.Intn(3)])
					req.Timeout = &to
				}
				desc := fmt.Sprintf("path=%s (mutated: %v) value=%s intent=%q prio=%d delete=%v orphan=%v ds=%q replace=%v", p, pb, tvd, intent.Intent, intent.Priority, intent.Delete, intent.Orphan, req.DatastoreName, req.ReplaceIntent != nil)
				note(desc)
				doSet(desc, req)
			}
		case "rpc-requests":
			// some content to read
			doSet("seed content", &sdcpb.TransactionSetRequest{DatastoreName: ds.Name, TransactionId: "seed", Intents: []*sdcpb.TransactionIntent{{Intent: "oa", Priority: 10, Update: []*sdcpb.Update{
				{Path: model.Parse("/sys/descr").ToPb(), Value: strTv("a")}, {Path: model.Parse("/if[name=e1]/mtu").ToPb(), Value: strTv("1500")}, {Path: model.Parse("/peer[name=n1][zone=z1]/as").ToPb(), Value: strTv("1")},
				// a presence container that holds a value of its own and a leaf: an entry that is a strict prefix of another
				{Path: model.Parse("/pres").ToPb(), Value: &sdcpb.TypedValue{Value: &sdcpb.TypedValue_EmptyVal{}}}, {Path: model.Parse("/pres/b").ToPb(), Value: strTv("x")}}}}})
			for i := 0; i < n; i++ {
				p := mutatePath(rng, c20SchemaPaths[rng.Intn(len(c20SchemaPaths))])
				name := []string{ds.Name, ds.Name, "", "nope"}[rng.Intn(4)]
				switch rng.Intn(6) {
				case 0, 1:
					req := roundTrip(&sdcpb.GetDataRequest{Name: name, Path: []*sdcpb.Path{p}, DataType: sdcpb.DataType(rng.Intn(4)), Encoding: sdcpb.Encoding(rng.Intn(6)),
						Datastore: &sdcpb.DataStore{Type: sdcpb.Type(rng.Intn(4)), Owner: []string{"", "oa"}[rng.Intn(2)], Priority: []int32{0, 10, -1}[rng.Intn(3)], Name: []string{"", "cand"}[rng.Intn(2)]}})
					if rng.Chance(1, 6) {
						req.Datastore = nil
					}
					if rng.Chance(1, 6) {
						req.Path = append(req.Path, nil2p())
					}
					switch rng.Intn(8) {
					case 0:
						// several related paths in one request: a node and something below or above it
						req.Path = append(req.Path, model.Parse("/pres/b").ToPb(), model.Parse("/pres").ToPb())
					case 1:
						req.Path = append([]*sdcpb.Path{model.Parse("/pres").ToPb()}, req.Path...)
						req.Path = append(req.Path, model.Parse("/pres/b").ToPb(), model.Parse("/sys").ToPb(), model.Parse("/sys/descr").ToPb())
					case 2:
						req.Path = append(req.Path, model.Parse("/if/mtu").ToPb(), model.Parse("/if[name=e1]").ToPb(), model.Parse("/peer/as").ToPb())
					}
					desc := fmt.Sprintf("GetData %v", req)
					note(desc)
					gs := fixture.NewFakeStream[*sdcpb.GetDataResponse](ctx)
					r.call("Server.GetData", desc, func() error { return srv.GetData(req, gs) })
					gs.Cancel()
				case 2:
					req := roundTrip(&sdcpb.SubscribeRequest{Name: name, Subscription: []*sdcpb.Subscription{{Path: []*sdcpb.Path{p}, DataType: sdcpb.DataType(rng.Intn(4)), SampleInterval: []uint64{0, uint64(time.Millisecond), 2 * uint64(time.Millisecond), 1 << 63, 1<<64 - 1, 1}[rng.Intn(6)]}}})
					if rng.Chance(1, 5) {
						req.Subscription = append(req.Subscription, &sdcpb.Subscription{})
					}
					desc := fmt.Sprintf("Subscribe %v", req)
					note(desc)
					ss := fixture.NewFakeStream[*sdcpb.SubscribeResponse](ctx)
					ss.CancelAtSend = 1 + rng.Intn(3)
					go func() { time.Sleep(30 * time.Millisecond); ss.Cancel() }()
					r.call("Server.Subscribe", desc, func() error { return srv.Subscribe(req, ss) })
					ss.Cancel()
				case 3:
					req := roundTrip(&sdcpb.WatchDeviationRequest{Name: [][]string{{ds.Name}, {}, {"nope"}, {"", ds.Name}}[rng.Intn(4)]})
					desc := fmt.Sprintf("WatchDeviations %v", req)
					note(desc)
					ws := fixture.NewFakeStream[*sdcpb.WatchDeviationResponse](ctx)
					go func() { time.Sleep(5 * time.Millisecond); ws.Cancel() }()
					r.call("Server.WatchDeviations", desc, func() error { return srv.WatchDeviations(req, ws) })
					r.call("deviation cycle", desc, func() error {
						ds.VerifDeviationCycle(ctx, map[string]sdcpb.DataServer_WatchDeviationsServer{"p": ws})
						return nil
					})
				case 4:
					id := []string{"seed", "", "nope", "t1"}[rng.Intn(4)]
					desc := fmt.Sprintf("Confirm/Cancel ds=%q id=%q", name, id)
					note(desc)
					r.call("Server.TransactionConfirm", desc, func() error {
						_, err := srv.TransactionConfirm(pctx, roundTrip(&sdcpb.TransactionConfirmRequest{DatastoreName: name, TransactionId: id}))
						return err
					})
					r.call("Server.TransactionCancel", desc, func() error {
						_, err := srv.TransactionCancel(pctx, roundTrip(&sdcpb.TransactionCancelRequest{DatastoreName: name, TransactionId: id}))
						return err
					})
				case 5:
					desc := fmt.Sprintf("GetIntent/ListIntent/GetDataStore ds=%q", name)
					note(desc)
					r.call("Server.GetIntent", desc, func() error {
						_, err := srv.GetIntent(pctx, roundTrip(&sdcpb.GetIntentRequest{Name: name, Intent: []string{"oa", "", "nope"}[rng.Intn(3)], Priority: []int32{10, 0, -1}[rng.Intn(3)]}))
						return err
					})
					r.call("Server.ListIntent", desc, func() error {
						_, err := srv.ListIntent(pctx, roundTrip(&sdcpb.ListIntentRequest{Name: name}))
						return err
					})
					r.call("Server.GetDataStore", desc, func() error {
						_, err := srv.GetDataStore(pctx, roundTrip(&sdcpb.GetDataStoreRequest{Name: name}))
						return err
					})
				}
			}
		}
	case "sync-notifications":
		ds := c.env.NewDS(fixture.DSOpts{Sync: &config.Sync{Validate: rng.Bool(), Buffer: 4096, WriteWorkers: int64(1 + rng.Intn(3))}})
		defer ds.Close()
		sctx, cancel := context.WithCancel(ctx)
		defer cancel()
		go ds.Sync(sctx)
		ch := ds.VerifSyncCh()
		for i := 0; i < n; i++ {
			nf := &sdcpb.Notification{}
			k := 1 + rng.Intn(3)
			if rng.Chance(1, 8) {
				k = 0 // a notification without updates and deletes (heartbeat, empty reply) is a valid message too
			}
			d := []string{}
			for j := 0; j < k; j++ {
				p := mutatePath(rng, c20SchemaPaths[rng.Intn(len(c20SchemaPaths))])
				switch rng.Intn(5) {
				case 0:
					nf.Delete = append(nf.Delete, p)
					d = append(d, fmt.Sprintf("del %v", p))
				case 1:
					paths := []string{"/sys", "/if[name=e1]", "/types", "/cons", "/"}
					bp := paths[rng.Intn(len(paths))]
					var v any
					json.Unmarshal([]byte(c20Docs[bp]), &v)
					if rng.Bool() {
						v = mutateJSON(rng, v, 0)
					}
					doc, _ := json.Marshal(v)
					nf.Update = append(nf.Update, &sdcpb.Update{Path: model.Parse(bp).ToPb(), Value: &sdcpb.TypedValue{Value: &sdcpb.TypedValue_JsonVal{JsonVal: doc}}})
					d = append(d, fmt.Sprintf("%s=JSON %s", bp, doc))
				default:
					tv, tvd := c20Tv(rng)
					nf.Update = append(nf.Update, &sdcpb.Update{Path: p, Value: tv})
					d = append(d, fmt.Sprintf("%v=%s", p, tvd))
				}
			}
			nf = roundTrip(nf)
			desc := strings.Join(d, " ; ")
			note(desc)
			fmt.Fprintf(os.Stderr, "VERIF-INPUT %s notification: %s\n", family, desc)
			core.Progress()
			su := &target.SyncUpdate{Update: nf}
			switch rng.Intn(12) {
			case 0:
				su = &target.SyncUpdate{Start: true, Force: rng.Bool()}
			case 1:
				su = &target.SyncUpdate{End: true}
			}
			select {
			case ch <- su:
				res.Count("calls", 1)
				res.Count("calls:"+family, 1)
			case <-time.After(10 * time.Second):
				res.Violate("C20/hang/sync-loop-stalled", "the sync loop does not take notifications any more\n  last: %s", desc)
				i = n
			}
		}
		// wait until the loop has drained (the writers run in goroutines of the code under test: a panic kills the worker)
		deadline := time.Now().Add(10 * time.Second)
		for len(ch) > 0 && time.Now().Before(deadline) {
			time.Sleep(time.Millisecond)
		}
		time.Sleep(20 * time.Millisecond)
		r.outcomes["sent"] = true
		r.outcomes["drained"] = true
		r.outcomes[fmt.Sprint("left:", len(ch))] = true
		// the loop must still be alive: a last, valid notification has to reach the running store
		if len(res.Findings) == 0 {
			bv := uint64(1000 + rng.Intn(1000000))
			bn := roundTrip(&sdcpb.Notification{Update: []*sdcpb.Update{{Path: model.Parse("/verif-barrier").ToPb(), Value: &sdcpb.TypedValue{Value: &sdcpb.TypedValue_UintVal{UintVal: bv}}}}})
			fmt.Fprintf(os.Stderr, "VERIF-INPUT %s barrier notification %d\n", family, bv)
			arrived := false
			select {
			case ch <- &target.SyncUpdate{Update: bn}:
				deadline := time.Now().Add(10 * time.Second)
				for time.Now().Before(deadline) && !arrived {
					st, _ := fixture.DumpStore(ctx, c.env.Cache, ds.Name, cachepb.Store_CONFIG)
					if st["verif-barrier"] == fmt.Sprint(bv) {
						arrived = true
					} else {
						time.Sleep(5 * time.Millisecond)
					}
				}
			case <-time.After(10 * time.Second):
			}
			res.Count("sync_barriers", 1)
			if !arrived {
				res.Violate("C20/hang/sync-loop-stalled", "after this batch of notifications a valid notification does not reach the running store within 10 s (%d notifications still queued): the sync loop has stopped\n  batch: %s", len(ch), strings.Join(inputs, "\n         "))
			}
		}
	case "gnmi-wire-notifications":
		// the same kind of device messages as gNMI notifications from a gNMI device on loopback: subscription stream and
		// Get replies of the production gNMI target (gnmic client, utils.ToSchemaNotification / FromGNMITypedValue /
		// FromGNMIPath), then the sync loop. Plus what only gNMI can say: prefix, origin / target, float / double / any
		// values, an update without a value, a path given as deprecated string elements or missing altogether
		gdev, err := fixture.NewGNMIDevice()
		if err != nil {
			res.Inconclusive("C20/gnmi-wire/no-device", "%v", err)
			return
		}
		defer gdev.Close()
		sbi := &config.SBI{Type: "gnmi", Address: "127.0.0.1", Port: gdev.Port(), GnmiOptions: &config.SBIGnmiOptions{Encoding: "proto"}}
		tg, err := target.New(ctx, "c20g", sbi, nil)
		if err != nil {
			res.Inconclusive("C20/gnmi-wire/connect", "%v", err)
			return
		}
		sc := &config.Sync{Validate: rng.Bool(), Buffer: 4096, WriteWorkers: int64(1 + rng.Intn(3)),
			Config: []*config.SyncProtocol{{Name: "config", Protocol: "gnmi", Mode: "on-change", Paths: []string{"/sys"}, Encoding: "proto"}}}
		withGet := rng.Bool()
		if withGet {
			gdev.SetGetNotifs([]*gnmi.Notification{})
			sc.Config = append(sc.Config, &config.SyncProtocol{Name: "get", Protocol: "gnmi", Mode: "get", Paths: []string{"/"}, Interval: 40 * time.Millisecond, Encoding: "PROTO"})
		}
		ds := c.env.NewDS(fixture.DSOpts{Target: tg, Sync: sc})
		defer ds.Close()
		sctx, cancel := context.WithCancel(ctx)
		defer cancel()
		go ds.Sync(sctx)
		if !waitFor(10*time.Second, func() bool { return gdev.NumSubscribers() >= 1 }) {
			res.Inconclusive("C20/gnmi-wire/no-subscription", "the target did not subscribe within 10 s")
			return
		}
		var held []*gnmi.Notification
		for i := 0; i < n; i++ {
			gn, desc := c20GNMINotification(rng)
			note(desc)
			fmt.Fprintf(os.Stderr, "VERIF-INPUT %s notification: %s\n", family, desc)
			core.Progress()
			gdev.Push(gn)
			res.Count("calls", 1)
			res.Count("calls:"+family, 1)
			if withGet && rng.Chance(1, 3) {
				// the device also holds it: the next Get replies carry it
				held = append(held, gn)
				gdev.SetGetNotifs(append([]*gnmi.Notification{}, held...))
				g0 := gdev.NumGets()
				waitFor(2*time.Second, func() bool { return gdev.NumGets() > g0 })
			}
		}
		r.outcomes["sent"] = true
		r.outcomes[fmt.Sprint("get:", withGet)] = true
		r.outcomes[fmt.Sprint("held:", len(held) > 0)] = true
		if withGet {
			gdev.SetGetNotifs([]*gnmi.Notification{})
		}
		// the target's subscription and the sync loop must still be alive: a valid notification has to reach the running store
		bv := uint64(1000 + rng.Intn(1000000))
		fmt.Fprintf(os.Stderr, "VERIF-INPUT %s barrier notification %d\n", family, bv)
		arrived := false
		deadline := time.Now().Add(10 * time.Second)
		for time.Now().Before(deadline) && !arrived {
			gdev.Push(&gnmi.Notification{Timestamp: 1, Update: []*gnmi.Update{{Path: fixture.ToGPath(model.Parse("/verif-barrier")), Val: &gnmi.TypedValue{Value: &gnmi.TypedValue_UintVal{UintVal: bv}}}}})
			for j := 0; j < 40 && !arrived; j++ {
				st, _ := fixture.DumpStore(ctx, c.env.Cache, ds.Name, cachepb.Store_CONFIG)
				if st["verif-barrier"] == fmt.Sprint(bv) {
					arrived = true
				} else {
					time.Sleep(5 * time.Millisecond)
				}
			}
		}
		res.Count("sync_barriers", 1)
		if !arrived {
			res.Violate("C20/hang/gnmi-sync-stalled", "after this batch of gNMI notifications a valid notification pushed by the device does not reach the running store within 10 s: the subscription or the sync loop has stopped\n  batch: %s", strings.Join(inputs, "\n         "))
		}
	case "stateful-histories":
		// valid requests only, but on a datastore with a history: several owners with overlapping leaves and leaf-lists of
		// different lengths, a device whose values drift (also leaf-lists with more / fewer elements), deviation cycles in
		// between - the comparisons and merges that only run when stores disagree
		h := &hist{env: c.env, owners: []string{"oa", "ob", "oc", "od"}}
		h.pool = append(poolFor("base+mk+extra+pres"), LeafDef{"/sys/dns", []string{"LL:a,b,c", "LL:c"}, "ll"}, LeafDef{"/types/ll-u64", []string{"LL:1", "LL:1,2", "LL:3,2,1"}, "ll"})
		run := h.start(rng, res, true, false)
		defer run.close()
		for i := 0; i < n/4+2; i++ {
			step := run.genStep(3)
			desc := stepString(step)
			note(desc)
			var out setOutcome
			id := run.nextID()
			r.call("Datastore.TransactionSet", desc, func() error {
				out = run.set(id, step, nil, time.Minute, false)
				if out.panicked {
					return fmt.Errorf("panicked")
				}
				return out.err
			})
			if out.panicked {
				// apiCall recorded it as inconclusive api-panic: for C20 it is the violation
				for fi := range res.Findings {
					if res.Findings[fi].Key == "api-panic" {
						res.Findings[fi].Verdict = core.Violated
						res.Findings[fi].Key = "C20/panic/stateful-histories/" + panicKind(res.Findings[fi].Detail) + "@" + innermostFrame(res.Findings[fi].Detail)
					}
				}
				break
			}
			if out.convErr == nil && out.err == nil && !out.rejected {
				r.call("Datastore.TransactionConfirm", id, func() error { return run.ds.TransactionConfirm(run.ctx, id) })
				run.m = applyToModel(run.m, step)
			}
			// the device drifts: some running values change behind the server's back
			if rng.Chance(1, 2) {
				var upds []*cache.Update
				for k := 0; k < 1+rng.Intn(3); k++ {
					l := h.pool[rng.Intn(len(h.pool))]
					v := l.Vals[rng.Intn(len(l.Vals))]
					b, _ := proto.Marshal(kindTv(l.Kind, v))
					upds = append(upds, cache.NewUpdate(strings.Split(model.CachePath(model.Parse(l.XPath)), ","), b, 0, "", 0))
					note("drift " + l.XPath + "=" + v)
				}
				c.env.Cache.Modify(ctx, run.ds.Name, &cache.Opts{Store: cachepb.Store_CONFIG}, nil, upds)
			}
			if rng.Chance(1, 2) {
				st := fixture.NewFakeStream[*sdcpb.WatchDeviationResponse](ctx)
				r.call("deviation cycle", desc, func() error {
					run.ds.VerifDeviationCycle(ctx, map[string]sdcpb.DataServer_WatchDeviationsServer{"peer": st})
					return nil
				})
				st.Cancel()
				r.outcomes[fmt.Sprint("deviations:", len(st.Sent) > 2)] = true
			}
		}
	case "datastore-management":
		// CreateDataStore / DeleteDataStore / ListDataStore / GetDataStore / Discard with arbitrary (protobuf-valid) target and
		// sync settings; the targets point at a gNMI device and a NETCONF device on loopback (so that the datastore really
		// connects and starts its sync and deviation goroutines: a panic there ends the process) or at a dead port
		gdev, gerr := fixture.NewGNMIDevice()
		ndev, nerr := fixture.NewNCDevice()
		if gerr != nil || nerr != nil {
			res.Inconclusive("C20/datastore-management/no-device", "%v %v", gerr, nerr)
			return
		}
		defer gdev.Close()
		defer ndev.Close()
		gdev.SetGetNotifs([]*gnmi.Notification{})
		srv := server.NewVerif(ctx, &config.Config{DefaultTransactionTimeout: time.Minute}, c.env.Schema, c.env.Cache, map[string]*datastore.Datastore{})
		pst := fixture.NewFakeStream[*sdcpb.GetDataResponse](ctx)
		pctx := pst.Context()
		defer pst.Cancel()
		sc := fixture.SchemaConfig()
		for i := 0; i < n/2+1; i++ {
			name := fmt.Sprintf("dm-%d-%d", idx, i)
			tgt := &sdcpb.Target{Address: "127.0.0.1"}
			switch rng.Intn(5) {
			case 0, 1:
				tgt.Type, tgt.Port = "gnmi", gdev.Port()
				tgt.ProtocolOptions = &sdcpb.Target_GnmiOpts{GnmiOpts: &sdcpb.GnmiOptions{Encoding: []string{"proto", "json", "json_ietf", "PROTO", "", "45", "bogus"}[rng.Intn(7)]}}
			case 2:
				tgt.Type, tgt.Port = "netconf", ndev.Port()
				tgt.ProtocolOptions = &sdcpb.Target_NetconfOpts{NetconfOpts: &sdcpb.NetconfOptions{IncludeNs: rng.Bool(), OperationWithNs: rng.Bool(), UseOperationRemove: rng.Bool(), CommitCandidate: sdcpb.CommitCandidate(rng.Intn(3))}}
				tgt.Credentials = &sdcpb.Credentials{Username: "u", Password: "p"}
			case 3:
				tgt.Type, tgt.Port = []string{"gnmi", "netconf", "noop", "", "GNMI"}[rng.Intn(5)], uint32([]int{1, 0, 65535, 70000}[rng.Intn(4)])
				if rng.Bool() {
					tgt.ProtocolOptions = &sdcpb.Target_GnmiOpts{GnmiOpts: &sdcpb.GnmiOptions{Encoding: "proto"}}
				}
			case 4:
				tgt.Type, tgt.Port = "gnmi", gdev.Port() // gnmi without its options, or with the options of the other protocol
				if rng.Bool() {
					tgt.ProtocolOptions = &sdcpb.Target_NetconfOpts{NetconfOpts: &sdcpb.NetconfOptions{}}
				}
			}
			if rng.Chance(1, 5) {
				tgt.Tls = &sdcpb.TLS{SkipVerify: rng.Bool(), Ca: []string{"", "/nope/ca.pem"}[rng.Intn(2)]}
			}
			req := &sdcpb.CreateDataStoreRequest{Name: name, Schema: &sdcpb.Schema{Name: sc.Name, Vendor: sc.Vendor, Version: sc.Version}, Target: tgt}
			if rng.Chance(1, 8) {
				req.Schema = &sdcpb.Schema{Name: "nope"}
			}
			if rng.Chance(1, 8) {
				req.Target = nil
			}
			if rng.Chance(3, 4) {
				sy := &sdcpb.Sync{Validate: rng.Bool(), Buffer: []int64{0, 1, 100, -1, 1 << 40}[rng.Intn(5)], WriteWorkers: []int64{0, 1, 16, -3}[rng.Intn(4)]}
				if sy.Buffer > 1<<30 {
					sy.Buffer = 100 // (a channel of 2^40 slots is an out-of-memory test, not a crash test)
				}
				ncfg := rng.Intn(3)
				for j := 0; j < ncfg; j++ {
					st := &sdcpb.Target{Type: []string{"gnmi", "netconf", "gnmi", "bogus", ""}[rng.Intn(5)]}
					if rng.Bool() {
						st.ProtocolOptions = &sdcpb.Target_GnmiOpts{GnmiOpts: &sdcpb.GnmiOptions{Encoding: []string{"proto", "PROTO", "json", "", "bogus"}[rng.Intn(5)]}}
					}
					cfgE := &sdcpb.SyncConfig{Name: fmt.Sprintf("s%d", j), Target: st, Path: [][]string{{"/"}, {"/sys"}, {}, {"/if[name"}, {"/nope", "/sys/name"}}[rng.Intn(5)],
						Mode: sdcpb.SyncMode(rng.Intn(5)), Interval: []uint64{0, 1, uint64(20 * time.Millisecond), uint64(time.Second), 1 << 63, 1<<64 - 1}[rng.Intn(6)]}
					if rng.Chance(1, 8) {
						cfgE.Target = nil
					}
					sy.Config = append(sy.Config, cfgE)
				}
				req.Sync = sy
			}
			req = roundTrip(req)
			desc := fmt.Sprintf("CreateDataStore %v", req)
			note(desc)
			var cerr error
			r.call("Server.CreateDataStore", desc, func() error {
				_, cerr = srv.CreateDataStore(pctx, req)
				return cerr
			})
			if cerr == nil {
				// let it connect and start its goroutines
				time.Sleep(time.Duration(60+rng.Intn(120)) * time.Millisecond)
				r.outcomes["created"] = true
			}
			r.call("Server.ListDataStore", desc, func() error {
				_, err := srv.ListDataStore(pctx, roundTrip(&sdcpb.ListDataStoreRequest{}))
				return err
			})
			cand := roundTrip(&sdcpb.CreateDataStoreRequest{Name: []string{name, "nope", ""}[rng.Intn(3)], Datastore: &sdcpb.DataStore{Type: sdcpb.Type(rng.Intn(3)), Name: []string{"c1", ""}[rng.Intn(2)], Owner: []string{"o", "", "__x"}[rng.Intn(3)], Priority: []int32{0, 5, -1}[rng.Intn(3)]}})
			r.call("Server.CreateDataStore(candidate)", fmt.Sprintf("%v", cand), func() error {
				_, err := srv.CreateDataStore(pctx, cand)
				return err
			})
			r.call("Server.Discard", desc, func() error {
				_, err := srv.Discard(pctx, roundTrip(&sdcpb.DiscardRequest{Name: []string{name, "nope"}[rng.Intn(2)], Datastore: &sdcpb.DataStore{Type: sdcpb.Type(rng.Intn(3)), Name: "c1", Owner: "o"}}))
				return err
			})
			del := roundTrip(&sdcpb.DeleteDataStoreRequest{Name: name})
			switch rng.Intn(4) {
			case 0:
				del.Datastore = &sdcpb.DataStore{Type: sdcpb.Type_CANDIDATE, Name: "c1", Owner: "o"}
			case 1:
				del.Datastore = &sdcpb.DataStore{Type: sdcpb.Type_MAIN}
			}
			r.call("Server.DeleteDataStore", fmt.Sprintf("%v", del), func() error {
				_, err := srv.DeleteDataStore(pctx, del)
				return err
			})
			// whatever was left, remove it for good
			srv.DeleteDataStore(pctx, &sdcpb.DeleteDataStoreRequest{Name: name})
		}
	case "netconf-xml":
		drv := fixture.NewFakeDrv()
		sbi := &config.SBI{Type: "netconf", Address: "127.0.0.1", Port: 1, ConnectRetry: time.Hour, Timeout: time.Second, Credentials: &config.Creds{Username: "u", Password: "p"},
			NetconfOptions: &config.SBINetconfOptions{IncludeNS: rng.Bool(), CommitDatastore: "candidate"}}
		nct := target.NewNCTargetWithDriver("c20", sbi, scb, drv)
		docs := []string{
			`<data><sys xmlns="urn:verif:a"><descr>a</descr><mtu>1500</mtu><dns>a</dns><dns>b</dns><log><level>warn</level></log></sys><if xmlns="urn:verif:a"><name>e1</name><mtu>9000</mtu><unit><id>1</id><vlan>10</vlan></unit></if></data>`,
			`<data><peer><zone>z1</zone><name>n1</name><as>1</as><timers><hold>30</hold></timers></peer><tri><c>x</c><a>k</a><b>1</b><v>p</v></tri><types><u64>18446744073709551615</u64><d2>1.50</d2><emp/><idref>id-one</idref><ll-u64>1</ll-u64><un2>1.5</un2></types></data>`,
			`<data><pres/><pres2/><ch><alpha>a</alpha><gamma><y>1</y></gamma></ch><svc><id>s1</id><ip4>1.1.1.1</ip4></svc><ifx>s</ifx><dns>top</dns></data>`,
		}
		frag := []string{`<if><mtu>1</mtu></if>`, `<if><name/></if>`, `<if/>`, `<nope>1</nope>`, `<sys><nope/></sys>`, `<sys>text<descr>a</descr></sys>`, `<descr>orphan</descr>`, `<types><i8>999</i8></types>`, `<types><d2>x</d2></types>`,
			`<types><u64>-1</u64></types>`, `<types><bool>maybe</bool></types>`, `<types><idref>bogus</idref></types>`, `<types><ll-str/></types>`, `<sys><dns/></sys>`, `<tri><a>k</a></tri>`, `<peer><name>n</name></peer>`,
			`<cons><mlist><req>r</req></mlist></cons>`, `<if><name>e1</name><unit><vlan>1</vlan></unit></if>`, `<if xmlns:x="y" x:attr="1"><name>e1</name></if>`, `<stats><rx>1</rx></stats>`, `<verif-barrier>x</verif-barrier>`, `<types><emp>text</emp></types>`, `<tags>a</tags><tags>b</tags>`, `<tags/>`, `<types><en>nope</en></types>`, `<types><un1/></types>`}
		for i := 0; i < n; i++ {
			var doc string
			switch rng.Intn(6) {
			case 0:
				doc = docs[rng.Intn(len(docs))]
			case 1:
				doc = []string{``, `<data/>`, `<data>`, `<rpc-reply/>`, `<a/><b/>`, `text`, `<data><![CDATA[x]]></data>`}[rng.Intn(7)]
			case 2:
				d := 1 + rng.Intn(2500)
				doc = "<data>" + strings.Repeat("<sys>", d) + strings.Repeat("</sys>", d) + "</data>"
			default:
				m := 1 + rng.Intn(3)
				doc = "<data>"
				for j := 0; j < m; j++ {
					doc += frag[rng.Intn(len(frag))]
				}
				doc += "</data>"
			}
			show := doc
			if len(show) > 300 {
				show = show[:300] + fmt.Sprintf("...(%d bytes)", len(doc))
			}
			note(show)
			drv.GetConfigDoc = doc
			r.call("ncTarget.Get(XML reply)", show, func() error {
				_, err := nct.Get(ctx, &sdcpb.GetDataRequest{Name: "c20", Path: []*sdcpb.Path{model.Parse("/sys").ToPb()}, Datastore: &sdcpb.DataStore{Type: sdcpb.Type_MAIN}})
				return err
			})
		}
	}
	res.Count("distinct_outcomes", len(r.outcomes))
	res.Hash = core.HashOf(append([]string{family}, inputs...)...)
	res.NonTrivial = len(r.outcomes) >= 3
	if idx < len(c20Families) {
		s := inputs
		if len(s) > 4 {
			s = s[:4]
		}
		res.Sample = map[string]any{"family": family, "inputs": s}
	}
}

func nil2(t *sdcpb.TransactionIntent) *sdcpb.TransactionIntent {
	return &sdcpb.TransactionIntent{Intent: t.GetIntent() + "-2", Priority: t.GetPriority() + 1}
}

func nil2p() *sdcpb.Path { return &sdcpb.Path{} }
