package checks

import (
	"context"
	"fmt"
	"runtime"
	"sort"
	"strings"
	"time"

	"github.com/sdcio/cache/proto/cachepb"
	"github.com/sdcio/data-server/pkg/cache"
	"github.com/sdcio/data-server/pkg/config"
	"github.com/sdcio/data-server/pkg/datastore"
	"github.com/sdcio/data-server/pkg/server"
	sdcpb "github.com/sdcio/sdc-protos/sdcpb"
	"google.golang.org/protobuf/proto"

	"verifharness/internal/core"
	"verifharness/internal/fixture"
	"verifharness/internal/model"
)

// C14: GetData returns exactly what is stored under the requested paths.

type c14 struct {
	h *hist
}

func init() { core.Register(&c14{}) }

func (c *c14) ID() string    { return "C14" }
func (c *c14) Level() string { return "exploration" }
func (c *c14) NumCases(tier string) int {
	if tier == "thorough" {
		return 4000
	}
	return 200
}
func (c *c14) Rule() string {
	return "one case = one datastore state produced by a PRNG transaction history (intended + running stores; lists with 1-3 keys, prefix-related entry keys e1/e10 and leaf names mtu/mtu-max, if/if-x/ifx) plus unmanaged running leaves, queried through Server.GetData (fake stream) with ~24 requests: path sets drawn from root children, containers, lists without / with partial / with full keys, leaves, non-existing instances, several paths at once; STRING, PROTO, JSON, JSON_IETF; MAIN and INTENDED with (owner, priority); plus unknown paths, STATE from INTENDED and an unknown encoding which must fail without data. The returned leaves are compared with the store dump filtered at path-element granularity. distinct = state + request list; non-trivial = at least one request whose filter separates prefix-related siblings and at least 20 leaves compared"
}
func (c *c14) Assumptions() []string {
	return []string{
		"reference = dump of the store through the cache client, filtered by the independent path model (missing keys are wildcards)",
		"JSON documents are decoded with the harness's schema table (list keys); values are compared in lexical form",
		"INTENDED requests always name owner and priority (without them the cache's highest-priority read applies, which the property does not define)",
	}
}

func (c *c14) Setup(w *core.Worker) error {
	fixture.Quiet()
	env, err := fixture.NewEnv(w.Scratch)
	if err != nil {
		return err
	}
	c.h = &hist{env: env, owners: []string{"oa", "ob", "oc"}}
	return nil
}

var c14PathPool = []string{
	"/sys", "/sys/mtu", "/sys/mtu-max", "/sys/log", "/sys/descr", "/sys/b-cont", "/sys/b-cont/bl[k=k1]",
	"/if", "/if[name=e1]", "/if[name=e10]", "/if[name=e]", "/if[name=e1]/mtu", "/if[name=e1]/unit", "/if[name=e1]/unit[id=1]", "/if[name=e1]/unit[id=10]", "/if[name=e1]/cfg",
	"/if-x", "/if-x[name=e1]", "/ifx",
	"/peer", "/peer[name=n1][zone=z1]", "/peer[zone=z1]", "/peer[name=n1]", "/peer[zone=n1]", "/peer-group", "/peer-group[name=n1]",
	"/duo", "/duo[k1=a]", "/duo[k2=a]", "/duo[k1=a][k2=b]", "/duo[k1=a][k2=b]/v",
	"/tri", "/tri[a=k]", "/tri[c=x]", "/tri[a=k][b=1][c=x]", "/tri[b=1]",
	"/pres2", "/stats",
	// key leaves (alone: a JSON answer has to complete the entry with the other keys)
	"/duo[k1=a][k2=b]/k2", "/duo[k1=a][k2=b]/k1", "/duo[k2=b]/k2", "/peer[name=n1][zone=z1]/zone", "/peer[name=n1][zone=z1]/name", "/tri[a=k][b=1][c=x]/c", "/tri[a=k][b=1][c=x]/b",
	"/if[name=e1]/name", "/if[name=e1]/unit[id=1]/id",
	// state leaves next to configuration, and entries whose key values contain characters a store may treat specially
	"/if[name=e1]/oper-state", "/if[name=e1.1]", "/if[name=e1.1]/oper-state", "/if[name=e1.1]/descr", "/if[name=e(1)]", "/if[name=e1+]/descr", "/if[name=e1?]",
}

// separates: requests whose filter must tell prefix related siblings apart
var c14Separating = map[string]bool{"/sys/mtu": true, "/if[name=e1]": true, "/if[name=e]": true, "/if": true, "/if[name=e1]/unit[id=1]": true, "/peer": true,
	"/peer[zone=z1]": true, "/peer[name=n1]": true, "/duo[k2=a]": true, "/duo[k1=a]": true, "/tri[c=x]": true, "/tri[b=1]": true, "/if[name=e1]/mtu": true}

type getResult struct {
	leaves map[string]string
	dups   []string
	err    error
	msgs   int
}

func (c *c14) get(srv *server.Server, req *sdcpb.GetDataRequest) getResult {
	st := fixture.NewFakeStream[*sdcpb.GetDataResponse](context.Background())
	done := make(chan error, 1)
	go func() {
		defer func() {
			if r := recover(); r != nil {
				buf := make([]byte, 6000)
				n := runtime.Stack(buf, false)
				done <- fmt.Errorf("PANIC: %v\n%s", r, buf[:n])
			}
		}()
		done <- srv.GetData(req, st)
	}()
	var err error
	select {
	case err = <-done:
	case <-time.After(20 * time.Second):
		st.Cancel()
		return getResult{err: fmt.Errorf("TIMEOUT")}
	}
	res := getResult{leaves: map[string]string{}, err: err}
	st.Cancel()
	for _, m := range st.Sent {
		res.msgs++
		for _, n := range m.GetNotification() {
			for _, u := range n.GetUpdate() {
				if jv := u.GetValue().GetJsonVal(); jv != nil || req.GetEncoding() == sdcpb.Encoding_JSON || req.GetEncoding() == sdcpb.Encoding_JSON_IETF {
					lv, _, derr := model.DecodeJSON(jv, nil)
					if derr != nil {
						res.err = fmt.Errorf("undecodable JSON answer: %v: %s", derr, jv)
						return res
					}
					for k, v := range lv {
						res.leaves[k] = v
					}
					continue
				}
				k := model.FromPb(u.GetPath()).String()
				if _, dup := res.leaves[k]; dup {
					res.dups = append(res.dups, k)
				}
				res.leaves[k] = model.TvString(u.GetValue())
			}
		}
	}
	return res
}

func filterRef(dump map[string]string, paths []model.Path) map[string]string {
	out := map[string]string{}
	for k, v := range dump {
		kp := model.Parse(k)
		for _, p := range paths {
			if p.Covers(kp) {
				out[k] = v
				break
			}
		}
	}
	return out
}

// cacheToCanon converts a ','-joined cache path into the canonical instance path using the schema table.
func cacheToCanon(cp string) string {
	parts := strings.Split(cp, ",")
	var p model.Path
	for i := 0; i < len(parts); i++ {
		e := model.Elem{Name: parts[i]}
		// a list element is followed by its key values in alphabetical key-name order
		if keys, ok := model.ListKeys[parts[i]]; ok && i+len(keys) < len(parts) {
			sorted := append([]string{}, keys...)
			sort.Strings(sorted)
			e.Keys = map[string]string{}
			for _, k := range sorted {
				i++
				e.Keys[k] = parts[i]
			}
		}
		p = append(p, e)
	}
	return p.String()
}

func (c *c14) RunCase(w *core.Worker, idx int, seed uint64, res *core.CaseResult) {
	rng := core.NewRng(seed)
	c.h.pool = poolFor("base+mk+extra")
	run := c.h.start(rng, res, true, false)
	defer run.close()
	for s := 0; s < 5; s++ {
		step := run.genStep(2)
		res.Tracef("step %d: %s", s, stepString(step))
		if _, ok := run.commit(step); !ok {
			return
		}
	}
	ctx := context.Background()
	// what a sync with validation wrote besides: state leaves, and list entries whose names contain '.', '(', '+', '?'
	{
		mk := func(path, v string) *cache.Update {
			b, _ := proto.Marshal(model.MkTv(v))
			return cache.NewUpdate(strings.Split(model.CachePath(model.Parse(path)), ","), b, 0, "", 0)
		}
		var cfgU, stU []*cache.Update
		for _, n := range []string{"e1.1", "e1x1", "e(1)", "e1+", "e1?", "e1"} {
			if rng.Chance(2, 3) {
				stU = append(stU, mk("/if[name="+n+"]/oper-state", []string{"up", "down"}[rng.Intn(2)]))
			}
			if n != "e1" && rng.Chance(2, 3) {
				cfgU = append(cfgU, mk("/if[name="+n+"]/name", n), mk("/if[name="+n+"]/descr", "d-"+n))
			}
		}
		if rng.Bool() {
			stU = append(stU, mk("/stats/rx", "10"))
		}
		if len(cfgU) > 0 {
			c.h.env.Cache.Modify(ctx, run.ds.Name, &cache.Opts{Store: cachepb.Store_CONFIG}, nil, cfgU)
		}
		if len(stU) > 0 {
			c.h.env.Cache.Modify(ctx, run.ds.Name, &cache.Opts{Store: cachepb.Store_STATE}, nil, stU)
		}
	}
	srv := server.NewVerif(ctx, &config.Config{}, c.h.env.Schema, c.h.env.Cache, map[string]*datastore.Datastore{run.ds.Name: run.ds.Datastore})
	stDump, _ := fixture.DumpStore(ctx, c.h.env.Cache, run.ds.Name, cachepb.Store_STATE)
	stateLeaves := map[string]string{}
	for k, v := range stDump {
		stateLeaves[cacheToCanon(k)] = v
	}
	cfgDump, _ := fixture.DumpStore(ctx, c.h.env.Cache, run.ds.Name, cachepb.Store_CONFIG)
	running := map[string]string{}
	for k, v := range cfgDump {
		running[cacheToCanon(k)] = v
	}
	intDump, _ := fixture.DumpIntended(ctx, c.h.env.Cache, run.ds.Name)
	perOwner := map[string]map[string]string{}
	for _, e := range intDump {
		ok := fmt.Sprintf("%s|%d", e.Owner, e.Priority)
		if perOwner[ok] == nil {
			perOwner[ok] = map[string]string{}
		}
		perOwner[ok][cacheToCanon(e.Path)] = e.Value
	}
	encs := []sdcpb.Encoding{sdcpb.Encoding_STRING, sdcpb.Encoding_PROTO, sdcpb.Encoding_JSON, sdcpb.Encoding_JSON_IETF}
	sep, compared := false, 0
	reqDesc := []string{}
	overlapping := false
	_ = overlapping
	var curPaths []model.Path
	exactRequested := map[string]bool{}
	compare := func(what string, got getResult, want map[string]string) {
		if got.err != nil {
			key := "C14/request-failed"
			if strings.HasPrefix(got.err.Error(), "PANIC") {
				res.Inconclusive("api-panic", "%s: %v", what, got.err)
				return
			}
			if strings.Contains(got.err.Error(), "undecodable") {
				key = "C14/undecodable-json"
			}
			res.Violate(key, "%s: %v", what, got.err)
			return
		}
		if w.Verbose {
			res.Tracef("  %s\n      got : %s\n      want: %s", what, model.SortedMap(got.leaves), model.SortedMap(want))
		}
		for k, v := range want {
			gv, ok := got.leaves[k]
			if !ok {
				key := "C14/stored-leaf-not-returned"
				if strings.Contains(what, "INTENDED") && !exactRequested[k] {
					key = "C14/intended-store-subtree-not-returned-for-owner-and-priority"
				}
				res.Violate(key, "%s: %s=%s is stored under the requested paths but was not returned", what, k, v)
			} else if gv != v {
				res.Violate("C14/wrong-value-returned", "%s: %s returned as %q, stored %q", what, k, gv, v)
			}
		}
		// a JSON document cannot show a leaf without the key members of the list entries above it: those are structure, not content
		implied := map[string]bool{}
		if strings.Contains(what, "enc=JSON") {
			for k := range got.leaves {
				for kk := range model.Parse(k).KeyLeaves() {
					implied[kk] = true
				}
			}
		}
		for k, v := range got.leaves {
			if _, ok := want[k]; !ok && implied[k] {
				delete(got.leaves, k)
				continue
			}
			if _, ok := want[k]; !ok {
				res.Violate("C14/leaf-outside-requested-paths-returned", "%s: %s=%s was returned but is not at or below a requested path (or not stored)", what, k, v)
			}
		}
		// (a leaf returned more than once is not judged: the statement asks for every leaf at or below the paths and none outside)
		if false {
			for _, d := range got.dups {
				// a leaf that several requested paths cover may legitimately be answered once per path
				n := 0
				for _, rp := range curPaths {
					if rp.Covers(model.Parse(d)) {
						n++
					}
				}
				if n > 1 {
					continue
				}
				res.Violate("C14/leaf-returned-twice", "%s: %s returned more than once", what, d)
			}
		}
		compared += len(want)
	}
	nreq := 24
	for q := 0; q < nreq && len(res.Findings) == 0; q++ {
		np := 1
		if rng.Chance(1, 4) {
			np = 2 + rng.Intn(2)
		}
		var paths []model.Path
		var ps []string
		for i := 0; i < np; i++ {
			s := c14PathPool[rng.Intn(len(c14PathPool))]
			ps = append(ps, s)
			paths = append(paths, model.Parse(s))
			if c14Separating[s] {
				sep = true
			}
		}
		var pbs []*sdcpb.Path
		overlapping = false
		curPaths = paths
		exactRequested = map[string]bool{}
		for _, p := range paths {
			exactRequested[p.String()] = true
		}
		for i, p := range paths {
			pbs = append(pbs, p.ToPb())
			for j, q := range paths {
				if i != j && (p.Covers(q) || q.Covers(p) || p.String() == q.String()) {
					overlapping = true
				}
			}
		}
		intended := rng.Chance(1, 4) && len(perOwner) > 0
		if intended {
			oks := make([]string, 0, len(perOwner))
			for k := range perOwner {
				oks = append(oks, k)
			}
			sort.Strings(oks)
			ok := oks[rng.Intn(len(oks))]
			var owner string
			var prio int32
			fmt.Sscanf(strings.Replace(ok, "|", " ", 1), "%s %d", &owner, &prio)
			enc := encs[rng.Intn(2)] // STRING / PROTO
			req := &sdcpb.GetDataRequest{Name: run.ds.Name, Path: pbs, DataType: sdcpb.DataType_CONFIG, Encoding: enc,
				Datastore: &sdcpb.DataStore{Type: sdcpb.Type_INTENDED, Owner: owner, Priority: prio}}
			what := fmt.Sprintf("GetData INTENDED owner=%s prio=%d enc=%s paths=%v", owner, prio, enc, ps)
			reqDesc = append(reqDesc, what)
			compare(what, c.get(srv, req), filterRef(perOwner[ok], paths))
			res.Count("requests_intended", 1)
			continue
		}
		// what kind of data: configuration (mostly), state, or both
		dt := []sdcpb.DataType{sdcpb.DataType_CONFIG, sdcpb.DataType_CONFIG, sdcpb.DataType_ALL, sdcpb.DataType_STATE}[rng.Intn(4)]
		want := map[string]string{}
		if dt != sdcpb.DataType_STATE {
			want = filterRef(running, paths)
		}
		if dt != sdcpb.DataType_CONFIG {
			for k, v := range filterRef(stateLeaves, paths) {
				want[k] = v
			}
		}
		res.Count("requests_main_"+dt.String(), 1)
		var first map[string]string
		for _, enc := range encs {
			req := &sdcpb.GetDataRequest{Name: run.ds.Name, Path: pbs, DataType: dt, Encoding: enc, Datastore: &sdcpb.DataStore{Type: sdcpb.Type_MAIN}}
			what := fmt.Sprintf("GetData MAIN %s enc=%s paths=%v", dt, enc, ps)
			got := c.get(srv, req)
			compare(what, got, want)
			if first == nil {
				first = got.leaves
			} else if got.err == nil {
				if d := fixture.MapDiff(first, got.leaves); d != "" {
					res.Violate("C14/encodings-differ", "%s differs from STRING: %s", what, d)
				}
			}
			res.Count("requests_main", 1)
		}
		reqDesc = append(reqDesc, fmt.Sprintf("MAIN x4 encodings paths=%v", ps))
	}
	// requests that must fail with an error and without data
	if len(res.Findings) == 0 {
		bad := []struct {
			what string
			req  *sdcpb.GetDataRequest
		}{
			{"unknown path", &sdcpb.GetDataRequest{Name: run.ds.Name, Path: []*sdcpb.Path{mustPb("/nope")}, DataType: sdcpb.DataType_CONFIG, Encoding: sdcpb.Encoding_STRING, Datastore: &sdcpb.DataStore{Type: sdcpb.Type_MAIN}}},
			{"known path next to an unknown one", &sdcpb.GetDataRequest{Name: run.ds.Name, Path: []*sdcpb.Path{mustPb("/sys"), mustPb("/sys/nope")}, DataType: sdcpb.DataType_CONFIG, Encoding: sdcpb.Encoding_PROTO, Datastore: &sdcpb.DataStore{Type: sdcpb.Type_MAIN}}},
			{"unknown leaf below a list given without keys", &sdcpb.GetDataRequest{Name: run.ds.Name, Path: []*sdcpb.Path{mustPb("/if/nope")}, DataType: sdcpb.DataType_CONFIG, Encoding: sdcpb.Encoding_STRING, Datastore: &sdcpb.DataStore{Type: sdcpb.Type_MAIN}}},
			{"unknown leaf below a list entry given with partial keys", &sdcpb.GetDataRequest{Name: run.ds.Name, Path: []*sdcpb.Path{mustPb("/duo[k1=a]/nope"), mustPb("/sys")}, DataType: sdcpb.DataType_CONFIG, Encoding: sdcpb.Encoding_JSON, Datastore: &sdcpb.DataStore{Type: sdcpb.Type_MAIN}}},
			{"unknown leaf below a nested list without keys", &sdcpb.GetDataRequest{Name: run.ds.Name, Path: []*sdcpb.Path{mustPb("/if[name=e1]/unit/nope")}, DataType: sdcpb.DataType_CONFIG, Encoding: sdcpb.Encoding_PROTO, Datastore: &sdcpb.DataStore{Type: sdcpb.Type_MAIN}}},
			{"STATE from INTENDED", &sdcpb.GetDataRequest{Name: run.ds.Name, Path: []*sdcpb.Path{mustPb("/sys")}, DataType: sdcpb.DataType_STATE, Encoding: sdcpb.Encoding_STRING, Datastore: &sdcpb.DataStore{Type: sdcpb.Type_INTENDED}}},
			{"unknown encoding", &sdcpb.GetDataRequest{Name: run.ds.Name, Path: []*sdcpb.Path{mustPb("/sys")}, DataType: sdcpb.DataType_CONFIG, Encoding: sdcpb.Encoding(77), Datastore: &sdcpb.DataStore{Type: sdcpb.Type_MAIN}}},
		}
		// every request three times: what the datastore remembers from the first answer must not change the next ones
		for round := 0; round < 3; round++ {
			for _, b := range bad {
				got := c.get(srv, b.req)
				res.Count("requests_must_fail", 1)
				nth := []string{"first", "second", "third"}[round]
				if got.err == nil {
					res.Violate("C14/unsupported-request-succeeded", "%s (%s time it is asked on this datastore): GetData returned success", b.what, nth)
				} else if len(got.leaves) > 0 {
					res.Violate("C14/partial-data-with-error", "%s (%s time): error %v but %d leaves were sent", b.what, nth, got.err, len(got.leaves))
				}
			}
		}
	}
	res.Count("leaves_compared", compared)
	res.Hash = core.HashOf(append(append([]string{}, run.canon...), reqDesc...)...)
	res.NonTrivial = sep && compared >= 20
	if idx < 2 {
		res.Sample = map[string]any{"history": run.canon, "requests": reqDesc}
	}
}
