package checks

import (
	"context"
	"fmt"
	"runtime"
	"sort"
	"strings"
	"time"

	"github.com/sdcio/cache/proto/cachepb"
	"github.com/sdcio/data-server/pkg/cache"
	"github.com/sdcio/data-server/pkg/config"
	"github.com/sdcio/data-server/pkg/datastore/target"
	"github.com/sdcio/data-server/pkg/datastore/types"
	dschema "github.com/sdcio/data-server/pkg/schema"
	"github.com/sdcio/data-server/pkg/tree"
	sdcpb "github.com/sdcio/sdc-protos/sdcpb"
	"google.golang.org/protobuf/proto"

	"verifharness/internal/core"
	"verifharness/internal/fixture"
	"verifharness/internal/model"
)

// stepIntent is one intent of one generated transaction.
type stepIntent struct {
	Owner  string
	Delete bool
	Orphan bool
	Prio   int32
	Vals   map[string]string
	Kind   string // create | change | shrink | reprio | resubmit | delete | orphan
}

func (s stepIntent) String() string {
	if s.Delete {
		if s.Orphan {
			return fmt.Sprintf("orphan(%s)", s.Owner)
		}
		return fmt.Sprintf("del(%s)", s.Owner)
	}
	return fmt.Sprintf("%s(%s,p%d,%s)", s.Kind, s.Owner, s.Prio, model.SortedMap(s.Vals))
}

// tvOverride, if set by the check of this worker process, chooses the typed value that carries a lexical value.
var tvOverride func(path, lex string) *sdcpb.TypedValue

func (s stepIntent) req() *sdcpb.TransactionIntent {
	r := &sdcpb.TransactionIntent{Intent: s.Owner, Priority: s.Prio, Delete: s.Delete, Orphan: s.Orphan}
	keys := make([]string, 0, len(s.Vals))
	for k := range s.Vals {
		keys = append(keys, k)
	}
	sort.Strings(keys)
	for _, k := range keys {
		tv := model.MkTv(s.Vals[k])
		if tvOverride != nil {
			if o := tvOverride(k, s.Vals[k]); o != nil {
				tv = o
			}
		}
		r.Update = append(r.Update, &sdcpb.Update{Path: model.Parse(k).ToPb(), Value: tv})
	}
	return r
}

// hist is the shared history engine behind C01, C02, C03, C05, C08 and C09.
type hist struct {
	env    *fixture.Env
	pool   []LeafDef
	owners []string
	// mkTarget, if set, supplies the southbound target instead of the recording device
	mkTarget func() target.Target
	// schemaDec / cacheDec, if set, decorate the collaborators of the next datastore
	schemaDec func(dschema.Client) dschema.Client
	// validation, if set, is the validation configuration of the next datastore
	validation *config.Validation
	// noOrphan: never draw only-intended deletes (they leave unmanaged values on the device)
	noOrphan bool
	// gnmiWire, if not empty, is the gNMI encoding (proto|json|json_ietf) of a production gNMI target connected to a
	// gNMI device on loopback; the device configuration is then what that device holds
	gnmiWire string
	// bulk > 0: new intent content comes with that many additional list entries every other time (intents with
	// hundreds of stored entries: batching, paging and buffer limits)
	bulk int
}

type histRun struct {
	h        *hist
	rng      *core.Rng
	ds       *fixture.DS
	fc       *fixture.FaultCache
	m        *model.Intents
	initRun  map[string]string
	usedPrio map[int32]string
	res      *core.CaseResult
	txn      int
	ctx      context.Context
	canon    []string // canonical request sequence (for the distinctness hash)
	// setTimeout, if set, replaces the 20 s deadline of TransactionSet calls
	setTimeout time.Duration
	// gdev: the gNMI device at the far end of the wire (gnmiWire mode)
	gdev *fixture.GNMIDevice
}

// devSnapshot is the configuration the device holds.
func (r *histRun) devSnapshot() map[string]string {
	if r.gdev == nil {
		return r.ds.Dev.Snapshot()
	}
	out := r.gdev.Snapshot()
	// gNMI has no scalar for the YANG empty type: a set leaf of type empty travels as boolean true (proto) or [null] (JSON)
	for k, v := range out {
		if v == "true" && emptyLeaves[schemaPathOf(k)] {
			out[k] = "EMPTY"
		}
	}
	// a container that holds a node exists: a JSON document has no other way to say so
	for pc := range presenceContainers {
		if _, ok := out[pc]; !ok && hasDescendant(out, pc) {
			out[pc] = "EMPTY"
		}
	}
	return out
}

// emptyLeaves: schema paths of the fixture's leaves of type empty
var emptyLeaves = map[string]bool{}

func init() {
	fixture.PresenceContainers = presenceContainers
	for _, name := range []string{"base+mk+extra+pres+choice"} {
		for _, l := range poolFor(name) {
			if l.Kind == "empty" {
				emptyLeaves[schemaPathOf(l.XPath)] = true
			}
		}
	}
}

func schemaPathOf(k string) string {
	p := model.Parse(k)
	names := make([]string, 0, len(p))
	for _, e := range p {
		names = append(names, e.Name)
	}
	return "/" + strings.Join(names, "/")
}

// apiCall runs f recovering a panic of the code under test (decided by C20, inconclusive elsewhere).
func apiCall(res *core.CaseResult, what string, f func()) (panicked bool) {
	defer func() {
		if r := recover(); r != nil {
			buf := make([]byte, 8192)
			n := runtime.Stack(buf, false)
			res.Inconclusive("api-panic", "%s panicked: %v\n%s", what, r, buf[:n])
			panicked = true
		}
	}()
	f()
	return false
}

func (h *hist) start(rng *core.Rng, res *core.CaseResult, withRunning bool, views bool) *histRun {
	fc := fixture.NewFaultCache(h.env.Cache)
	opts := fixture.DSOpts{Cache: fc, Views: views, Validation: h.validation}
	if h.mkTarget != nil {
		opts.Target = h.mkTarget()
	}
	var gdev *fixture.GNMIDevice
	if h.gnmiWire != "" {
		var err error
		if gdev, err = fixture.NewGNMIDevice(); err != nil {
			res.Inconclusive("wire/no-device", "%v", err)
		} else {
			sbi := &config.SBI{Type: "gnmi", Address: "127.0.0.1", Port: gdev.Port(), GnmiOptions: &config.SBIGnmiOptions{Encoding: h.gnmiWire}}
			tg, err := target.New(context.Background(), "wire", sbi, nil)
			if err != nil {
				res.Inconclusive("wire/connect", "%v", err)
				gdev.Close()
				gdev = nil
			} else {
				opts.Target = tg
			}
		}
	}
	if h.schemaDec != nil {
		opts.Schema = h.schemaDec(h.env.Schema)
	}
	ds := h.env.NewDS(opts)
	r := &histRun{h: h, rng: rng, ds: ds, fc: fc, m: model.NewIntents(), initRun: map[string]string{}, usedPrio: map[int32]string{}, res: res, ctx: context.Background(), gdev: gdev}
	if withRunning {
		r.seedRunning()
	}
	return r
}

// seedRunning draws the initial running configuration: empty, disjoint from all intents, overlapping,
// or equal to values intents will use; written to the CONFIG store (what a sync would have done) and to the device.
func (r *histRun) seedRunning() {
	mode := r.rng.Intn(4)
	if mode == 0 {
		r.res.Tracef("initial running: empty")
		return
	}
	var upds []*cache.Update
	add := func(l LeafDef, v string) {
		p := model.Parse(l.XPath)
		r.initRun[p.String()] = v
		b, _ := proto.Marshal(kindTv(l.Kind, v))
		upds = append(upds, cache.NewUpdate(strings.Split(model.CachePath(p), ","), b, 0, "", 0))
	}
	addWithKeys := func(l LeafDef) {
		add(l, l.Vals[r.rng.Intn(len(l.Vals))])
		for kp, kv := range model.Parse(l.XPath).KeyLeaves() {
			if _, ok := r.initRun[kp]; !ok {
				add(LeafDef{XPath: kp, Kind: keyLeafKind(kp)}, kv)
			}
		}
	}
	for _, l := range runningOnly {
		if r.rng.Chance(2, 3) {
			addWithKeys(l)
		}
	}
	if mode >= 2 {
		// overlapping with the intent pool (incl. the key leaves a device would report)
		for _, l := range r.h.pool {
			if l.Kind == "ll" || l.Kind == "empty" || isChoiceMember(l.XPath) {
				// (a device never holds unmanaged nodes of a choice next to what intents configure in another case:
				// what the server owes such nodes is not stated by any property)
				continue
			}
			if r.rng.Chance(1, 4) {
				addWithKeys(l)
			}
		}
	}
	if err := r.h.env.Cache.Modify(r.ctx, r.ds.Name, &cache.Opts{Store: cachepb.Store_CONFIG}, nil, upds); err != nil {
		r.res.Inconclusive("seed-running", "cannot seed running: %v", err)
	}
	if r.gdev != nil {
		r.gdev.SetConfig(r.initRun)
	}
	for k, v := range r.initRun {
		r.ds.Dev.Config[k] = v
	}
	r.res.Tracef("initial running: %s", model.SortedMap(r.initRun))
}

func (r *histRun) close() {
	r.ds.Close()
	if r.gdev != nil {
		r.gdev.Close()
	}
}

// genStep draws one transaction against the current model.
func (r *histRun) genStep(maxIntents int) []stepIntent {
	rng := r.rng
	nint := 1
	if maxIntents > 1 && rng.Chance(1, 3) {
		nint = 2 + rng.Intn(maxIntents-1)
	}
	if nint > len(r.h.owners) {
		nint = len(r.h.owners)
	}
	perm := rng.Perm(len(r.h.owners))
	// bias: prefer touching the top owners of a contested path in the same transaction
	var step []stepIntent
	taken := map[int32]bool{}
	for o, in := range r.m.Live {
		_ = o
		taken[in.Prio] = true
	}
	for i := 0; i < nint; i++ {
		o := r.h.owners[perm[i]]
		cur := r.m.Live[o]
		si := stepIntent{Owner: o}
		act := rng.Intn(20)
		switch {
		case cur != nil && act < 3:
			si.Delete, si.Prio, si.Kind = true, cur.Prio, "delete"
		case cur != nil && act == 3 && !r.h.noOrphan:
			si.Delete, si.Orphan, si.Prio, si.Kind = true, true, cur.Prio, "orphan"
		case cur != nil && act == 4:
			// re-submit verbatim
			si.Prio, si.Kind, si.Vals = cur.Prio, "resubmit", copyMap(cur.Vals)
		case cur != nil && act < 8:
			// re-prioritise, same content
			si.Prio, si.Kind, si.Vals = r.freshPrio(o, taken), "reprio", copyMap(cur.Vals)
		case cur != nil && act < 11:
			// shrink: drop some paths
			si.Prio, si.Kind, si.Vals = cur.Prio, "shrink", map[string]string{}
			ks := sortedKeys(cur.Vals)
			for _, k := range ks {
				if rng.Bool() {
					si.Vals[k] = cur.Vals[k]
				}
			}
			if len(si.Vals) == 0 {
				si.Vals[ks[0]] = cur.Vals[ks[0]]
			}
		case cur != nil && act < 15:
			// change values / add paths, keep the rest
			si.Prio, si.Kind, si.Vals = cur.Prio, "change", copyMap(cur.Vals)
			n := 1 + rng.Intn(3)
			for j := 0; j < n; j++ {
				l := r.h.pool[rng.Intn(len(r.h.pool))]
				si.Vals[l.XPath] = l.Vals[rng.Intn(len(l.Vals))]
			}
		default:
			// new content (create, or replace the content wholesale)
			si.Kind = "create"
			if cur != nil {
				si.Prio = cur.Prio
				si.Kind = "replace-content"
				if rng.Chance(1, 4) {
					si.Prio = r.freshPrio(o, taken)
				}
			} else {
				si.Prio = r.freshPrio(o, taken)
			}
			si.Vals = map[string]string{}
			n := 1 + rng.Intn(6)
			for j := 0; j < n; j++ {
				l := r.h.pool[rng.Intn(len(r.h.pool))]
				si.Vals[l.XPath] = l.Vals[rng.Intn(len(l.Vals))]
			}
			if r.h.bulk > 0 && rng.Bool() {
				off := rng.Intn(20)
				v := []string{"a", "b", "c"}[rng.Intn(3)]
				for j := 0; j < r.h.bulk; j++ {
					si.Vals[fmt.Sprintf("/if[name=b%03d]/descr", off+j)] = v
				}
				si.Kind += "-bulk"
			}
		}
		taken[si.Prio] = true
		step = append(step, si)
	}
	return step
}

func (r *histRun) freshPrio(owner string, taken map[int32]bool) int32 {
	for {
		p := int32(5 + r.rng.Intn(60))
		if !taken[p] {
			return p
		}
	}
}

func sortedKeys(m map[string]string) []string {
	ks := make([]string, 0, len(m))
	for k := range m {
		ks = append(ks, k)
	}
	sort.Strings(ks)
	return ks
}

func copyMap(m map[string]string) map[string]string {
	c := make(map[string]string, len(m))
	for k, v := range m {
		c[k] = v
	}
	return c
}

func stepString(step []stepIntent) string {
	s := []string{}
	for _, si := range step {
		s = append(s, si.String())
	}
	return strings.Join(s, " + ")
}

// applyToModel returns the model after the step.
func applyToModel(m *model.Intents, step []stepIntent) *model.Intents {
	n := m.Clone()
	for _, si := range step {
		if !si.Delete {
			n.Set(si.Owner, &model.Intent{Prio: si.Prio, Vals: copyMap(si.Vals)})
		} else if !si.Orphan {
			n.Delete(si.Owner, false)
		}
	}
	// orphan deletes last: a leaf the orphaned intent defined and that no intent defines after the
	// whole transaction stays on the device by design
	for _, si := range step {
		if si.Delete && si.Orphan {
			n.Delete(si.Owner, true)
		}
	}
	return n
}

func (r *histRun) mkTis(step []stepIntent) ([]*types.TransactionIntent, error) {
	var tis []*types.TransactionIntent
	for _, si := range step {
		var ti *types.TransactionIntent
		var err error
		if apiCall(r.res, "SdcpbTransactionIntentToInternalTI", func() {
			ti, err = r.ds.SdcpbTransactionIntentToInternalTI(r.ctx, si.req())
		}) {
			return nil, fmt.Errorf("panic")
		}
		if err != nil {
			return nil, err
		}
		tis = append(tis, ti)
	}
	return tis, nil
}

type setOutcome struct {
	rsp      *sdcpb.TransactionSetResponse
	err      error
	panicked bool
	rejected bool // response carries intent errors
	convErr  error
}

// set performs one TransactionSet through the same conversion the server handler uses.
func (r *histRun) set(id string, step []stepIntent, replace *stepIntent, timeout time.Duration, dry bool) setOutcome {
	core.Progress()
	var out setOutcome
	tis, err := r.mkTis(step)
	if err != nil {
		out.convErr = err
		return out
	}
	var rti *types.TransactionIntent
	if replace != nil {
		rq := replace.req()
		// the server handler overwrites name and priority of the replace intent
		rq.Priority = tree.ReplaceValuesPrio
		rq.Intent = tree.ReplaceIntentName
		if apiCall(r.res, "SdcpbTransactionIntentToInternalTI(replace)", func() {
			rti, err = r.ds.SdcpbTransactionIntentToInternalTI(r.ctx, rq)
		}) {
			out.panicked = true
			return out
		}
		if err != nil {
			out.convErr = err
			return out
		}
	}
	to := 20 * time.Second
	if r.setTimeout > 0 {
		to = r.setTimeout
	}
	ctx, cancel := context.WithTimeout(r.ctx, to)
	defer cancel()
	out.panicked = apiCall(r.res, "TransactionSet", func() {
		out.rsp, out.err = r.ds.TransactionSet(ctx, id, tis, rti, timeout, dry)
	})
	if out.rsp != nil {
		for _, ir := range out.rsp.GetIntents() {
			if len(ir.GetErrors()) > 0 {
				out.rejected = true
			}
		}
	}
	return out
}

func (r *histRun) nextID() string {
	r.txn++
	return fmt.Sprintf("t%d", r.txn)
}

// commit executes the step for real and confirms it; returns false if the history cannot continue.
func (r *histRun) commit(step []stepIntent) (setOutcome, bool) {
	id := r.nextID()
	out := r.set(id, step, nil, time.Minute, false)
	r.canon = append(r.canon, stepString(step))
	switch {
	case out.convErr != nil:
		r.res.Inconclusive("hist/convert-error", "valid request refused at conversion: %v\n  step: %s", out.convErr, stepString(step))
		return out, false
	case out.panicked:
		return out, false
	case out.err != nil:
		r.res.Inconclusive("hist/set-error", "valid request failed: %v\n  step: %s", out.err, stepString(step))
		return out, false
	case out.rejected:
		r.res.Inconclusive("hist/validation-reject", "valid request rejected: %v\n  step: %s", out.rsp.GetIntents(), stepString(step))
		return out, false
	}
	var cerr error
	if apiCall(r.res, "TransactionConfirm", func() { cerr = r.ds.TransactionConfirm(r.ctx, id) }) {
		return out, false
	}
	if cerr != nil {
		r.res.Inconclusive("hist/confirm-error", "confirm of %s failed: %v", id, cerr)
		return out, false
	}
	r.m = applyToModel(r.m, step)
	return out, true
}

// ---------------------------------------------------------------------------------------------
// oracles

// checkDevice is the C01 oracle.
func (r *histRun) checkDevice(tag string, rsp *sdcpb.TransactionSetResponse) {
	D := r.devSnapshot()
	W := r.m.Winners()
	for k, w := range W {
		dv, ok := D[k]
		if !ok {
			r.res.Violate("C01/missing"+missingFeature(k, rsp), "%s: device lacks %s (ruling: %s p%d = %s)\n  model: %s", tag, k, w.Owner, w.Prio, w.Value, r.m)
		} else if dv != w.Value {
			r.res.Violate("C01/wrong-value"+featureOf(k), "%s: device has %s=%s, ruling intent %s p%d says %s\n  model: %s", tag, k, dv, w.Owner, w.Prio, w.Value, r.m)
		}
	}
	inEverEntry := func(k string) bool {
		for _, e := range model.Parse(k).ListEntryPrefixes() {
			if r.m.EverEntries[e] {
				return true
			}
		}
		return false
	}
	// an intent that defines a presence container itself manages the container: removing it removes what is below
	underEverContainer := func(k string) bool {
		p := model.Parse(k)
		for i := 1; i < len(p); i++ {
			if r.m.Ever[p[:i].String()] {
				return true
			}
		}
		return false
	}
	for k, dv := range D {
		if _, ok := W[k]; ok {
			continue
		}
		if presenceContainers[k] && hasDescendant(D, k) {
			// a presence container that holds a node exists by necessity: {/pres/b} cannot be represented without /pres
			continue
		}
		if r.m.Ever[k] {
			if !r.m.Orphaned[k] {
				r.res.Violate("C01/stale"+featureOf(k), "%s: device still has %s=%s although no live intent defines it\n  model: %s", tag, k, dv, r.m)
			}
			continue
		}
		if inEverEntry(k) || underEverContainer(k) {
			continue // unconstrained by the statement
		}
		if iv, ok := r.initRun[k]; !ok || iv != dv {
			r.res.Violate("C01/unmanaged-changed", "%s: unmanaged device leaf %s=%s (initially %q present=%v)", tag, k, dv, iv, ok)
		}
	}
	for k, iv := range r.initRun {
		if r.m.Ever[k] || inEverEntry(k) || underEverContainer(k) {
			continue
		}
		if dv, ok := D[k]; !ok {
			r.res.Violate("C01/unmanaged-removed", "%s: unmanaged device leaf %s=%s was removed", tag, k, iv)
		} else if dv != iv {
			// reported above
			_ = dv
		}
	}
}

// missingFeature classifies a missing leaf: was it removed by a delete of a presence container sent in this very transaction?
func missingFeature(k string, rsp *sdcpb.TransactionSetResponse) string {
	kp := model.Parse(k)
	for _, d := range rsp.GetDelete() {
		dp := model.FromPb(d)
		if dp.Covers(kp) && len(dp) < len(kp) && presenceContainers[dp.String()] {
			return "/owned-child-removed-by-presence-container-delete"
		}
	}
	return featureOf(k)
}

var presenceContainers = map[string]bool{"/pres": true, "/pres2": true, "/ch/gamma": true, "/ch/delta": true, "/cons/mand": true}

// featureOf refines a violation key by the kind of node, so that known findings stay specific.
func featureOf(k string) string {
	switch {
	case strings.HasPrefix(k, "/pres"):
		return "/presence"
	case strings.HasPrefix(k, "/ch/") || strings.HasPrefix(k, "/svc"):
		return "/choice"
	case k == "/sys/dns":
		return "/leaflist"
	}
	return ""
}

// checkIntended is the C02 oracle; prev is the dump before the transaction (may be nil).
func (r *histRun) checkIntended(tag string) {
	dump, err := fixture.DumpIntended(r.ctx, r.h.env.Cache, r.ds.Name)
	if err != nil {
		r.res.Inconclusive("C02/dump-error", "%v", err)
		return
	}
	got, multi := fixture.IntendedMap(dump)
	want := r.m.IntendedFlat(model.CachePath)
	r.res.Count("intended_entries_compared", len(want))
	for k, v := range want {
		gv, ok := got[k]
		if !ok {
			r.res.Violate("C02/missing", "%s: intended store lacks %s=%s\n  model: %s", tag, k, v, r.m)
		} else if gv != v {
			r.res.Violate("C02/wrong-value", "%s: intended store has %s=%s, want %s", tag, k, gv, v)
		}
	}
	for k, v := range got {
		if _, ok := want[k]; !ok {
			r.res.Violate("C02/stale", "%s: intended store has superseded entry %s=%s\n  model: %s", tag, k, v, r.m)
		}
	}
	for _, k := range multi {
		r.res.Violate("C02/old-version-survives", "%s: intended store holds more than one version of %s", tag, k)
	}
}

func (r *histRun) dumps() (map[string]string, map[string]string) {
	d, err := fixture.DumpIntended(r.ctx, r.h.env.Cache, r.ds.Name)
	if err != nil {
		r.res.Inconclusive("dump-error", "%v", err)
	}
	im, _ := fixture.IntendedMap(d)
	cm, _ := fixture.DumpStore(r.ctx, r.h.env.Cache, r.ds.Name, cachepb.Store_CONFIG)
	return im, cm
}

// hasDescendant: m holds a path below p.
func hasDescendant(m map[string]string, p string) bool {
	for k := range m {
		if strings.HasPrefix(k, p+"/") {
			return true
		}
	}
	return false
}
