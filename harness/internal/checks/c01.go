package checks

import (
	"fmt"
	"time"

	"verifharness/internal/core"
	"verifharness/internal/fixture"
)

// histCheck runs random histories; the oracle depends on the property.
type histCheck struct {
	id string
	h  *hist
}

func init() {
	core.Register(&histCheck{id: "C01"})
	core.Register(&histCheck{id: "C02"})
}

func (c *histCheck) ID() string    { return c.id }
func (c *histCheck) Level() string { return "exploration" }

func (c *histCheck) NumCases(tier string) int {
	if tier == "thorough" {
		return 6000
	}
	return 320
}

func (c *histCheck) steps(tier string) int {
	if tier == "thorough" {
		return 20
	}
	return 12
}

func (c *histCheck) Rule() string {
	switch c.id {
	case "C01":
		return "one case = one PRNG-determined history of TransactionSet+Confirm calls (create, change, shrink, re-prioritise, replace content, re-submit, delete, orphan-delete; 1-3 intents per transaction; 4 owners with distinct priorities; pools: single/multi-key lists incl. non-alphabetical key order, prefix-related names, leaf-lists, presence containers; drawn initial running configuration) against the real datastore + real local cache + recording device; after every committed transaction the device configuration is compared with the winner-per-path reference model. distinct = hash of the canonical request sequence; non-trivial = some path had >=2 owners and its ruling owner changed at least once"
	case "C02":
		return "same histories as C01; after every committed transaction the complete intended store is dumped through the cache client (every stored version, exact owner/priority reads) and compared with each owner's last accepted intent. distinct = hash of the request sequence; non-trivial = an owner that was shadowed on at least one of its paths was changed, re-prioritised or deleted"
	}
	return ""
}

func (c *histCheck) Assumptions() []string {
	return []string{
		"the recording device applies deletes at path-element granularity (missing keys are wildcards), then updates - gNMI Set semantics",
		"the reference model is the 40-line winner-per-path map in internal/model/intents.go; key leaves of list entries are part of every intent",
		"cache paths encode key values in alphabetical order of the key names (sdcio/cache convention used by utils.ToStrings)",
		"orphan-deleted leaves are exempt from the 'stale' clause until an intent defines them again",
	}
}

func (c *histCheck) Setup(w *core.Worker) error {
	fixture.Quiet()
	env, err := fixture.NewEnv(w.Scratch)
	if err != nil {
		return err
	}
	c.h = &hist{env: env, owners: []string{"oa", "ob", "oc", "od"}}
	return nil
}

var histPools = []string{"base", "base+mk+keyonly+implicit", "base+extra+slashkeys", "base+mk+extra", "base+mk+extra+pres"}

func (c *histCheck) RunCase(w *core.Worker, idx int, seed uint64, res *core.CaseResult) {
	rng := core.NewRng(seed)
	poolName := histPools[idx%len(histPools)]
	c.h.pool = poolFor(poolName)
	// every 8th case: the production gNMI target and a gNMI device on loopback instead of the recording target
	c.h.gnmiWire = ""
	if c.id == "C01" && idx%8 == 7 {
		c.h.gnmiWire = []string{"proto", "json", "json_ietf"}[(idx/8)%3]
		poolName += " gnmi-wire=" + c.h.gnmiWire
	}
	// every 16th case: intents with hundreds of entries
	c.h.bulk = 0
	if idx%16 == 15 {
		c.h.bulk = 150
		poolName += " bulk"
		res.Count("bulk_cases", 1)
	}
	run := c.h.start(rng, res, true, false)
	defer run.close()
	if c.h.gnmiWire != "" {
		if run.gdev == nil {
			return
		}
		res.Count("gnmi_wire_cases:"+c.h.gnmiWire, 1)
	}
	res.Tracef("pool=%s", poolName)
	steps := c.steps(w.Tier)
	contested, shadowChanged := false, false
	for s := 0; s < steps; s++ {
		step := run.genStep(3)
		res.Tracef("step %d: %s", s, stepString(step))
		beforeW := run.m.Winners()
		beforeOwners := run.m.OwnersOf()
		// C02 non-triviality: a touched owner is shadowed on one of its paths
		for _, si := range step {
			if cur := run.m.Live[si.Owner]; cur != nil {
				for k := range cur.Expanded() {
					if wn, ok := beforeW[k]; ok && wn.Owner != si.Owner {
						shadowChanged = true
					}
				}
			}
		}
		if c.id == "C02" && s > 0 && rng.Chance(1, 6) {
			// a transaction that is applied and then cancelled (every third of them runs into its timeout instead): the
			// intended store must be what the last accepted versions say, as if it had never been there
			id := run.nextID() + "x"
			viaTimeout := rng.Chance(1, 3)
			to := time.Hour
			if viaTimeout {
				to = 40 * time.Millisecond
			}
			out := run.set(id, step, nil, to, false)
			run.canon = append(run.canon, "ROLLED-BACK "+stepString(step))
			if out.convErr != nil || out.panicked || out.err != nil || out.rejected {
				res.Inconclusive("hist/set-error", "valid request failed: conv=%v err=%v rejected=%v\n  step: %s", out.convErr, out.err, out.rejected, stepString(step))
				break
			}
			if viaTimeout {
				if !waitFor(10*time.Second, func() bool { id, _ := run.ds.VerifOpenTransaction(); return id == "" }) {
					res.Inconclusive("C02/timeout-not-observed", "transaction %s still registered 10 s after a 40 ms timeout", id)
					break
				}
			} else {
				var cerr error
				if apiCall(res, "TransactionCancel", func() { cerr = run.ds.TransactionCancel(run.ctx, id) }) || cerr != nil {
					res.Inconclusive("C02/cancel-failed", "%v", cerr)
					break
				}
			}
			res.Count("transactions_rolled_back", 1)
			run.checkIntended(fmt.Sprintf("after step %d [%s] was applied and rolled back (timeout=%v)", s, stepString(step), viaTimeout))
			if len(res.Findings) > 0 {
				break
			}
			continue
		}
		out, ok := run.commit(step)
		if !ok {
			break
		}
		if w.Verbose {
			res.Tracef("   payload: %s", fixture.PayloadKey(out.rsp.GetUpdate(), out.rsp.GetDelete()))
		}
		afterW := run.m.Winners()
		afterOwners := run.m.OwnersOf()
		for k, bw := range beforeW {
			if aw, ok := afterW[k]; ok && aw.Owner != bw.Owner && (beforeOwners[k] >= 2 || afterOwners[k] >= 2) {
				contested = true
			}
		}
		res.Count("transactions", 1)
		res.Count("intents", len(step))
		for _, si := range step {
			res.Count("kind:"+si.Kind, 1)
		}
		tag := fmt.Sprintf("after step %d [%s]", s, stepString(step))
		switch c.id {
		case "C01":
			run.checkDevice(tag, out.rsp)
			res.Count("device_leaves_checked", len(afterW))
			if run.gdev != nil {
				res.Count("gnmi_set_requests_received", run.gdev.NumSets())
				for _, st := range run.gdev.SetsSince(0) {
					if st.DecodeErr != "" {
						res.Violate("C01/gnmi-wire/request-not-understood", "%s: the device cannot interpret the SetRequest: %s\n  %s", tag, st.DecodeErr, fixture.DescribeSet(st.Req))
					}
				}
			}
		case "C02":
			run.checkIntended(tag)
		}
		if len(res.Findings) > 0 {
			break
		}
	}
	res.Hash = core.HashOf(append([]string{poolName, fmt.Sprint(run.initRun)}, run.canon...)...)
	if c.id == "C01" {
		res.NonTrivial = contested
	} else {
		res.NonTrivial = shadowChanged
	}
	if idx < 3 {
		res.Sample = map[string]any{"pool": poolName, "history": run.canon, "final_model": run.m.String()}
	}
}
