package checks

import (
	"context"
	"fmt"
	"runtime"
	"strings"
	"time"

	"github.com/sdcio/cache/proto/cachepb"
	"github.com/sdcio/data-server/pkg/cache"
	"github.com/sdcio/data-server/pkg/config"
	"github.com/sdcio/data-server/pkg/datastore"
	"github.com/sdcio/data-server/pkg/server"
	sdcpb "github.com/sdcio/sdc-protos/sdcpb"
	"google.golang.org/protobuf/proto"

	"verifharness/internal/core"
	"verifharness/internal/fixture"
	"verifharness/internal/model"
)

// C19: streaming RPCs end when their client does.

type c19 struct {
	env *fixture.Env
}

func init() { core.Register(&c19{}) }

func (c *c19) ID() string    { return "C19" }
func (c *c19) Level() string { return "exploration" }
func (c *c19) NumCases(tier string) int {
	if tier == "thorough" {
		return 12000
	}
	return 1920
}
func (c *c19) Rule() string {
	return "one case = one streaming call (Datastore.Subscribe with 1-4 subscriptions and 1-4 ms sample intervals, Server.GetData in all four encodings, Server.WatchDeviations) on a datastore holding 0-120 running leaves, with a scripted client: cancel at send index k, Send error from index k on (all concurrent senders fail), stalled consumer (Send blocks until cancel), slow consumer, cancel between ticks, data exhausted, or the cache instance of the datastore deleted while the stream is served; the handler must return and the census of goroutines with a data-server frame (runtime.Stack) must be back at its baseline within 10 s; a worker death with a Go panic is a violation. After every case the same server is asked for streams it has to refuse (WatchDeviations, GetData, Subscribe naming an unknown, an empty or no datastore), for a TransactionCancel (needs the datastore map for itself) and for a plain GetData on the datastore: each has to return within 10 s (what a stream left behind - a lock, a full channel - shows here). distinct = (rpc, subscriptions/encoding, store size, script); non-trivial = the terminating event happened after at least one message was sent or while several senders were active"
}
func (c *c19) Assumptions() []string {
	return []string{
		"fake server streams: Send fails after the context was cancelled (as gRPC does) and always carries peer information",
		"bounded time = 10 s (observed latency is milliseconds); a miss is a violation only if two goroutine dumps 1 s apart show the same blocked goroutines, otherwise inconclusive",
	}
}

func (c *c19) Setup(w *core.Worker) error {
	fixture.Quiet()
	env, err := fixture.NewEnv(w.Scratch)
	c.env = env
	return err
}

func (c *c19) CrashKey(tail string) (string, bool) {
	switch {
	case strings.Contains(tail, "close of closed channel"):
		return "C19/panic-close-of-closed-channel", true
	case strings.Contains(tail, "send on closed channel"):
		return "C19/panic-send-on-closed-channel", true
	case strings.Contains(tail, "panic:"), strings.Contains(tail, "fatal error:"):
		first := tail
		if i := strings.IndexByte(first, '\n'); i > 0 {
			first = first[:i]
		}
		return "C19/crash:" + first, true
	}
	return "", false
}

var c19Frames = []string{"data-server/pkg/datastore.", "data-server/pkg/server."}

func (c *c19) fill(ds *fixture.DS, n int) {
	var upds []*cache.Update
	for i := 0; i < n; i++ {
		p := model.Parse(fmt.Sprintf("/if[name=e%d]/descr", i))
		b, _ := proto.Marshal(model.MkTv(fmt.Sprintf("d%d", i)))
		upds = append(upds, cache.NewUpdate(strings.Split(model.CachePath(p), ","), b, 0, "", 0))
		kp := model.Parse(fmt.Sprintf("/if[name=e%d]/name", i))
		kb, _ := proto.Marshal(model.MkTv(fmt.Sprintf("e%d", i)))
		upds = append(upds, cache.NewUpdate(strings.Split(model.CachePath(kp), ","), kb, 0, "", 0))
	}
	c.env.Cache.Modify(context.Background(), ds.Name, &cache.Opts{Store: cachepb.Store_CONFIG}, nil, upds)
}

type script struct {
	kind string // cancel-at | fail-at | stall-at | slow | cancel-later | exhaust
	k    int
}

func (s script) String() string { return fmt.Sprintf("%s(%d)", s.kind, s.k) }

func applyScript[T any](st *fixture.FakeStream[T], s script) {
	switch s.kind {
	case "cancel-at":
		st.CancelAtSend = s.k
	case "fail-at":
		st.FailAtSend = s.k
	case "stall-at":
		st.StallAtSend = s.k
	case "slow":
		st.SendDelay = time.Duration(s.k) * 200 * time.Microsecond
	}
}

func (c *c19) RunCase(w *core.Worker, idx int, seed uint64, res *core.CaseResult) {
	rng := core.NewRng(seed)
	ds := c.env.NewDS(fixture.DSOpts{})
	defer ds.Close()
	sizes := []int{0, 1, 5, 40, 120}
	size := sizes[rng.Intn(len(sizes))]
	c.fill(ds, size)
	kinds := []string{"cancel-at", "fail-at", "stall-at", "slow", "cancel-later", "exhaust", "store-deleted"}
	rpc := []string{"subscribe", "getdata", "watchdeviations"}[idx%3]
	kmax := 2*size + 3
	if rpc == "subscribe" {
		// several senders share the stream: a Send that fails (or a client that goes away) while the other subscriptions
		// are in the middle of a sample, also in a later round
		kinds = append(kinds, "fail-at", "fail-at", "cancel-at")
		kmax = 5*size + 6
	}
	sc := script{kind: kinds[rng.Intn(len(kinds))], k: 1 + rng.Intn(kmax)}
	// quiesce, then baseline
	time.Sleep(2 * time.Millisecond)
	base, _ := fixture.Census(c19Frames...)
	done := make(chan error, 1)
	var cancel func()
	var sent func() int
	desc := ""
	ctx := context.Background()
	switch rpc {
	case "subscribe":
		nsub := 1 + rng.Intn(4)
		req := &sdcpb.SubscribeRequest{Name: ds.Name}
		for i := 0; i < nsub; i++ {
			req.Subscription = append(req.Subscription, &sdcpb.Subscription{
				Path:           []*sdcpb.Path{model.Parse("/if").ToPb()},
				DataType:       sdcpb.DataType_CONFIG,
				SampleInterval: uint64(time.Duration(1+rng.Intn(4)) * time.Millisecond),
			})
		}
		pathless := ""
		if rng.Chance(1, 5) {
			// a subscription without any path is a valid message too
			req.Subscription[rng.Intn(nsub)].Path = nil
			pathless = " (one subscription without a path)"
		}
		st := fixture.NewFakeStream[*sdcpb.SubscribeResponse](ctx)
		applyScript(st, sc)
		cancel, sent = st.Cancel, st.NumSent
		desc = fmt.Sprintf("Subscribe subs=%d%s leaves=%d script=%s", nsub, pathless, 2*size, sc)
		go func() {
			defer func() {
				if r := recover(); r != nil {
					done <- fmt.Errorf("PANIC: %v", r)
				}
			}()
			done <- ds.Subscribe(req, st)
		}()
		if nsub >= 2 {
			res.NonTrivial = true
		}
	case "getdata":
		enc := []sdcpb.Encoding{sdcpb.Encoding_STRING, sdcpb.Encoding_PROTO, sdcpb.Encoding_JSON, sdcpb.Encoding_JSON_IETF}[rng.Intn(4)]
		srv := server.NewVerif(ctx, &config.Config{}, c.env.Schema, c.env.Cache, map[string]*datastore.Datastore{ds.Name: ds.Datastore})
		req := &sdcpb.GetDataRequest{Name: ds.Name, Path: []*sdcpb.Path{model.Parse("/if").ToPb()}, DataType: sdcpb.DataType_CONFIG,
			Encoding: enc, Datastore: &sdcpb.DataStore{Type: sdcpb.Type_MAIN}}
		if rng.Chance(1, 4) {
			req.Path = append(req.Path, model.Parse("/sys").ToPb(), model.Parse("/if[name=e1]").ToPb())
		}
		st := fixture.NewFakeStream[*sdcpb.GetDataResponse](ctx)
		applyScript(st, sc)
		cancel, sent = st.Cancel, st.NumSent
		desc = fmt.Sprintf("GetData enc=%s paths=%d leaves=%d script=%s", enc, len(req.Path), 2*size, sc)
		go func() {
			defer func() {
				if r := recover(); r != nil {
					done <- fmt.Errorf("PANIC: %v", r)
				}
			}()
			done <- srv.GetData(req, st)
		}()
	case "watchdeviations":
		srv := server.NewVerif(ctx, &config.Config{}, c.env.Schema, c.env.Cache, map[string]*datastore.Datastore{ds.Name: ds.Datastore})
		st := fixture.NewFakeStream[*sdcpb.WatchDeviationResponse](ctx)
		applyScript(st, sc)
		cancel, sent = st.Cancel, st.NumSent
		desc = fmt.Sprintf("WatchDeviations leaves=%d script=%s", 2*size, sc)
		go func() {
			defer func() {
				if r := recover(); r != nil {
					done <- fmt.Errorf("PANIC: %v", r)
				}
			}()
			done <- srv.WatchDeviations(&sdcpb.WatchDeviationRequest{Name: []string{ds.Name}}, st)
		}()
		// run deviation cycles against the registered stream while it lives
		go func() {
			for i := 0; i < 3; i++ {
				time.Sleep(time.Millisecond)
				ds.VerifDeviationCycle(ctx, map[string]sdcpb.DataServer_WatchDeviationsServer{"x": st})
			}
		}()
	}
	if sc.kind == "store-deleted" {
		// the datastore is deleted (as Server.DeleteDataStore does with its cache instance) while the stream is being
		// served: reads start to fail; the handler still has to return when the client goes away
		go func() {
			time.Sleep(2 * time.Millisecond)
			c.env.Cache.Delete(ctx, ds.Name)
		}()
	}
	res.Tracef("%s", desc)
	res.Hash = core.HashOf(desc)
	if idx < 3 {
		res.Sample = desc
	}
	// the client ends the call (scripts that do not end it by themselves)
	endBy := time.Duration(3+rng.Intn(12)) * time.Millisecond
	var herr error
	returned := false
	select {
	case herr = <-done:
		returned = true
	case <-time.After(endBy):
	}
	if !returned {
		cancel()
		select {
		case herr = <-done:
			returned = true
		case <-time.After(10 * time.Second):
		}
	}
	if sent() > 0 {
		res.NonTrivial = true
	}
	res.Count("rpc:"+rpc, 1)
	res.Count("script:"+sc.kind, 1)
	res.Count("messages_sent", sent())
	if returned && herr != nil && strings.HasPrefix(herr.Error(), "PANIC") {
		res.Violate("C19/panic-in-handler", "%s: %v", desc, herr)
	}
	if !returned {
		c.hung(res, "C19/handler-does-not-return", desc, base)
		cancel()
		return
	}
	cancel()
	// goroutine census back to the baseline within the bound
	deadline := time.Now().Add(10 * time.Second)
	for {
		n, _ := fixture.Census(c19Frames...)
		if n <= base {
			break
		}
		if time.Now().After(deadline) {
			c.hung(res, "C19/goroutines-left-behind", desc, base)
			return
		}
		time.Sleep(time.Millisecond)
		runtime.Gosched()
	}
	// the same datastore serves the next client: a second, undisturbed stream must come to its end as well (what the
	// first call left behind - a lock, a full channel - would show here)
	if sc.kind != "store-deleted" {
		srv := server.NewVerif(ctx, &config.Config{}, c.env.Schema, c.env.Cache, map[string]*datastore.Datastore{ds.Name: ds.Datastore})
		// streams that are refused (unknown datastore, nothing named) end at once and leave the server able to serve:
		// a request that needs the datastore map for itself (every transaction call does) comes through afterwards
		refused := 0
		for _, name := range [][]string{{"nope"}, nil, {""}}[:1+rng.Intn(3)] {
			rdone := make(chan error, 3)
			n1 := ""
			if len(name) > 0 {
				n1 = name[0]
			}
			ws := fixture.NewFakeStream[*sdcpb.WatchDeviationResponse](ctx)
			gs := fixture.NewFakeStream[*sdcpb.GetDataResponse](ctx)
			ss := fixture.NewFakeStream[*sdcpb.SubscribeResponse](ctx)
			go func() { rdone <- srv.WatchDeviations(&sdcpb.WatchDeviationRequest{Name: name}, ws) }()
			go func() {
				rdone <- srv.GetData(&sdcpb.GetDataRequest{Name: n1, Path: []*sdcpb.Path{model.Parse("/if").ToPb()}, Datastore: &sdcpb.DataStore{Type: sdcpb.Type_MAIN}}, gs)
			}()
			go func() {
				rdone <- srv.Subscribe(&sdcpb.SubscribeRequest{Name: n1, Subscription: []*sdcpb.Subscription{{Path: []*sdcpb.Path{model.Parse("/if").ToPb()}, SampleInterval: uint64(time.Millisecond)}}}, ss)
			}()
			for i := 0; i < 3; i++ {
				select {
				case rerr := <-rdone:
					refused++
					if rerr == nil {
						res.Violate("C19/stream-on-unknown-datastore-not-refused", "%s: a stream request naming %q afterwards ends without an error", desc, name)
					}
				case <-time.After(10 * time.Second):
					c.hung(res, "C19/refused-stream-does-not-return", fmt.Sprintf("%s, then streams naming %q", desc, name), base)
					ws.Cancel()
					gs.Cancel()
					ss.Cancel()
					return
				}
			}
			ws.Cancel()
			gs.Cancel()
			ss.Cancel()
		}
		res.Count("refused_streams", refused)
		udone := make(chan error, 1)
		go func() {
			// (a unary call carries peer information as well)
			_, uerr := srv.TransactionCancel(fixture.NewFakeStream[*sdcpb.GetDataResponse](ctx).Context(), &sdcpb.TransactionCancelRequest{DatastoreName: ds.Name, TransactionId: "none"})
			udone <- uerr
		}()
		select {
		case <-udone:
			res.Count("follow_up_unary_calls", 1)
		case <-time.After(10 * time.Second):
			c.hung(res, "C19/server-blocked-after-streams", desc+", then refused streams and a TransactionCancel", base)
			return
		}
		st2 := fixture.NewFakeStream[*sdcpb.GetDataResponse](ctx)
		done2 := make(chan error, 1)
		go func() {
			defer func() {
				if r := recover(); r != nil {
					done2 <- fmt.Errorf("PANIC: %v", r)
				}
			}()
			done2 <- srv.GetData(&sdcpb.GetDataRequest{Name: ds.Name, Path: []*sdcpb.Path{model.Parse("/if").ToPb()}, DataType: sdcpb.DataType_CONFIG,
				Encoding: sdcpb.Encoding_STRING, Datastore: &sdcpb.DataStore{Type: sdcpb.Type_MAIN}}, st2)
		}()
		select {
		case err2 := <-done2:
			res.Count("follow_up_streams", 1)
			if err2 != nil {
				res.Violate("C19/next-stream-fails", "%s: a plain GetData on the same datastore afterwards fails: %v", desc, err2)
			}
		case <-time.After(10 * time.Second):
			c.hung(res, "C19/next-stream-does-not-return", desc, base)
			st2.Cancel()
		}
		st2.Cancel()
	}
}

// hung applies the two-dump rule: a violation only if the same goroutines are blocked in both dumps.
func (c *c19) hung(res *core.CaseResult, key, desc string, base int) {
	n1, s1 := fixture.Census(c19Frames...)
	time.Sleep(time.Second)
	n2, s2 := fixture.Census(c19Frames...)
	ids := func(st []string) map[string]bool {
		m := map[string]bool{}
		for _, s := range st {
			if i := strings.IndexByte(s, '['); i > 0 {
				m[s[:i]] = true
			}
		}
		return m
	}
	a, b := ids(s1), ids(s2)
	stable := 0
	var stack, handlerStack string
	for _, s := range s2 {
		if i := strings.IndexByte(s, '['); i > 0 && a[s[:i]] && b[s[:i]] {
			stable++
			if stack == "" && !strings.Contains(s, "checks.(*c19)") {
				stack = s
			}
			// the handler goroutine itself is started by the harness (its stack ends in the check's closure): it counts
			// when it is blocked inside data-server code, not inside the fake stream
			if handlerStack == "" && strings.Contains(s, "checks.(*c19)") && strings.Contains(s, "github.com/sdcio/data-server/pkg/") && !strings.Contains(s, "fixture.(*FakeStream") {
				handlerStack = s
			}
		}
	}
	if stack == "" {
		stack = handlerStack
	}
	if n2 > base && stable > 0 && stack != "" {
		first := stack
		if len(first) > 1500 {
			first = first[:1500]
		}
		res.Violate(key+classifyBlocked(stack), "%s: %d goroutine(s) with data-server frames (baseline %d) are still there 10 s after the client ended the call and did not move for another second (dumps: %d, %d), e.g.\n%s", desc, n2-base, base, n1, n2, first)
	} else {
		res.Inconclusive(key, "%s: bound missed but the goroutines changed between two dumps (%d, %d; baseline %d)", desc, n1, n2, base)
	}
}

func classifyBlocked(stack string) string {
	switch {
	case strings.Contains(stack, "(*Datastore).Subscribe.func1") && strings.Contains(stack, "chan send"):
		return "/subscribe-ticker-blocked-on-errCh"
	case strings.Contains(stack, "(*Datastore).Subscribe") && strings.Contains(stack, "semacquire"):
		return "/subscribe-waitgroup"
	case strings.Contains(stack, "(*Server).GetData"):
		return "/getdata"
	case strings.Contains(stack, "(*Server).WatchDeviations"):
		return "/watchdeviations"
	}
	return ""
}
