package checks

var poolChoice = []LeafDef{}
