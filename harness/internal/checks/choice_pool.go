package checks

import (
	"strings"

	"verifharness/internal/model"
)

// poolChoice: members of three choices (top level with prefix related names, inside a list entry, nested in a case) and non-members.
var poolChoice = []LeafDef{
	{"/ch/alpha", []string{"a1", "a2"}, "string"},
	{"/ch/alpha-c/x", []string{"x1", "x2"}, "string"},
	{"/ch/alpha-b", []string{"b1", "b2"}, "string"},
	{"/ch/gamma", []string{"EMPTY"}, "empty"},
	{"/ch/gamma/y", []string{"y1", "y2"}, "string"},
	{"/ch/delta/z", []string{"z1", "z2"}, "string"},
	{"/ch/tun/gre", []string{"g1", "g2"}, "string"},
	{"/ch/tun/vx", []string{"v1", "v2"}, "string"},
	{"/ch/tun/tnote", []string{"t1", "t2"}, "string"},
	{"/ch/alpha-beta", []string{"n1", "n2"}, "string"},
	{"/ch/other", []string{"o1", "o2"}, "string"},
	{"/ch/gamma-stats", []string{"s1", "s2"}, "string"},
	{"/ch/tun2", []string{"u1", "u2"}, "string"},
	{"/ch/alpha-c.bak", []string{"k1", "k2"}, "string"},
	{"/svc[id=s1]/vlan", []string{"10", "20"}, "uint"},
	{"/svc[id=s1]/vlan-name", []string{"v1", "v2"}, "string"},
	{"/svc[id=s1]/vrf", []string{"r1", "r2"}, "string"},
	{"/svc[id=s1]/descr", []string{"d1", "d2"}, "string"},
	{"/svc[id=s10]/vlan", []string{"10", "20"}, "uint"},
	{"/svc[id=s10]/vrf", []string{"r1", "r2"}, "string"},
	{"/svc[id=s10]/descr", []string{"d1", "d2"}, "string"},
}

// poolChoiceNested adds the members of the choice nested in case l3.
var poolChoiceNested = []LeafDef{
	{"/svc[id=s1]/ip4", []string{"1.1.1.1", "2.2.2.2"}, "string"},
	{"/svc[id=s1]/ip6", []string{"::1", "::2"}, "string"},
}

type choiceDef struct {
	name   string
	parent string              // schema path of the node holding the choice
	cases  map[string][]string // case -> member names (relative to the parent)
	within string              // for a nested choice: "outerChoice/case" it lives in
}

var choiceDefs = []choiceDef{
	{"top", "/ch", map[string][]string{"alpha-case": {"alpha", "alpha-c"}, "alpha-b-case": {"alpha-b"}, "gamma-case": {"gamma"}, "delta": {"delta"}, "tun-case": {"tun"}}, ""},
	// a choice inside the container that is the member of case tun-case (a choice of its own container, not a nested choice)
	{"encap", "/ch/tun", map[string][]string{"gre": {"gre"}, "vx": {"vx"}}, ""},
	{"kind", "/svc", map[string][]string{"l2": {"vlan", "vlan-name"}, "l3": {"vrf", "ip4", "ip6"}}, ""},
	{"addr", "/svc", map[string][]string{"v4": {"ip4"}, "v6": {"ip6"}}, "kind/l3"},
}

// choiceMember returns (instance prefix, case) if the canonical leaf path is a member of the choice.
func (cd choiceDef) member(k string) (string, string) {
	p := model.Parse(k)
	for i := range p {
		if model.SchemaPath(p[:i+1]) == cd.parent && i+1 < len(p) {
			for cn, ms := range cd.cases {
				for _, m := range ms {
					if p[i+1].Name == m {
						return p[:i+1].String(), cn
					}
				}
			}
		}
	}
	return "", ""
}

// resolveChoices removes from the winners the leaves of the cases that lose; returns the winning case per choice instance.
func resolveChoices(m *model.Intents, winners map[string]model.Winner) map[string]string {
	active := map[string]string{}
	for _, cd := range choiceDefs {
		// best priority per (instance, case) over ALL leaves that live intents define (not only the ruling ones)
		best := map[string]map[string]int32{}
		for _, in := range m.Live {
			for k := range in.Expanded() {
				if _, ok := winners[k]; !ok && cd.within != "" {
					continue // removed by the outer choice
				}
				inst, cn := cd.member(k)
				if inst == "" {
					continue
				}
				if best[inst] == nil {
					best[inst] = map[string]int32{}
				}
				if p, ok := best[inst][cn]; !ok || in.Prio < p {
					best[inst][cn] = in.Prio
				}
			}
		}
		for inst, cs := range best {
			win, wp := "", int32(1<<31-1)
			for cn, p := range cs {
				if p < wp || (p == wp && cn < win) {
					win, wp = cn, p
				}
			}
			active[inst+"#"+cd.name] = win
			for k := range winners {
				if i2, cn := cd.member(k); i2 == inst && cn != win {
					delete(winners, k)
				}
			}
		}
	}
	return active
}

func isChoicePath(k string) bool {
	return strings.HasPrefix(k, "/ch/") || strings.HasPrefix(k, "/svc[")
}

// isChoiceMember: the leaf path lies in a member of one of the choices of the schema.
func isChoiceMember(k string) bool {
	for _, cd := range choiceDefs {
		if inst, _ := cd.member(k); inst != "" {
			return true
		}
	}
	return false
}
