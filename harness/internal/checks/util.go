package checks

import (
	"github.com/sdcio/data-server/pkg/datastore/types"
	sdcpb "github.com/sdcio/sdc-protos/sdcpb"

	"verifharness/internal/fixture"
	"verifharness/internal/model"
)

func mustPb(p string) *sdcpb.Path { return model.Parse(p).ToPb() }

func strTv(s string) *sdcpb.TypedValue {
	return &sdcpb.TypedValue{Value: &sdcpb.TypedValue_StringVal{StringVal: s}}
}

func tisOf(t ...*types.TransactionIntent) []*types.TransactionIntent { return t }

func pathString(p *sdcpb.Path) string { return model.FromPb(p).String() }

func devSets(d *fixture.RecDev) []*fixture.SetRecord { return d.AllSets() }
