package checks

import (
	"strconv"

	"context"
	"encoding/json"
	"fmt"
	gnmi "github.com/openconfig/gnmi/proto/gnmi"
	"sort"
	"strings"
	"sync"
	"time"

	"github.com/sdcio/cache/proto/cachepb"
	"github.com/sdcio/data-server/pkg/cache"
	"github.com/sdcio/data-server/pkg/config"
	schemaClient "github.com/sdcio/data-server/pkg/datastore/clients/schema"
	"github.com/sdcio/data-server/pkg/datastore/target"
	sdcpb "github.com/sdcio/sdc-protos/sdcpb"

	"verifharness/internal/core"
	"verifharness/internal/fixture"
	"verifharness/internal/model"
)

// C13: the running datastore mirrors the device after sync.

type c13 struct {
	env *fixture.Env
}

func init() { core.Register(&c13{}) }

func (c *c13) ID() string    { return "C13" }
func (c *c13) Level() string { return "exploration" }
func (c *c13) NumCases(tier string) int {
	if tier == "thorough" {
		return 6000 + len(c13Directed)
	}
	return 360 + len(c13Directed)
}
func (c *c13) Rule() string {
	return "one case = one scripted notification sequence put on the datastore's sync channel (full re-sync cycles Start/notifications/End and on-change streams; updates with typed and string values, deletes of leaves, list entries and containers, JSON blobs at container level, several updates per notification, prefix-related names e1/e10, mtu/mtu-max) for write workers in {1,2,16} and sync validation on/off; the harness's cache decorator parks every cache Modify of the sync writers and releases them in a PRNG-chosen completion order; quiescence is established by W content-matched barrier notifications parked inside Modify, the CONFIG and STATE stores are dumped while they are parked and compared with a sequential mirror model (latest notification per path wins, deletes at path-element granularity, paths absent from a completed cycle are gone, state routing). For W>1 concurrently processed notifications of the exploration scripts touch disjoint subtrees (the reorder of two in-flight notifications for one path is a recorded known finding exercised by directed scripts). distinct = script + W + validate; non-trivial = script contains a delete or a completed re-sync cycle that prunes, and >= 6 notifications"
}
func (c *c13) Assumptions() []string {
	return []string{
		"what the harness puts on the sync channel IS what the device reported",
		"quiescence: when W barrier writes are parked every semaphore slot is held by a barrier, so every earlier notification has been stored",
		"with sync validation off everything is routed to the CONFIG store; STATE content below a deleted parent is not constrained",
		"a device reports the key leaves of list entries implicitly (the server derives them from the path keys)",
	}
}

func (c *c13) Setup(w *core.Worker) error {
	fixture.Quiet()
	env, err := fixture.NewEnv(w.Scratch)
	c.env = env
	return err
}

type syncLeaf struct {
	path  string
	kind  string // string | uint
	state bool
	vals  []string
}

var c13Leaves = []syncLeaf{
	{"/sys/descr", "string", false, []string{"a", "b", "c"}},
	{"/sys/name", "string", false, []string{"r1", "r2"}},
	{"/sys/mtu", "uint", false, []string{"1400", "1500"}},
	{"/sys/mtu-max", "uint", false, []string{"9000", "9100"}},
	{"/sys/log/host", "string", false, []string{"h1", "h2"}},
	{"/if[name=e1]/descr", "string", false, []string{"a", "b"}},
	{"/if[name=e1]/mtu", "uint", false, []string{"1000", "2000"}},
	{"/if[name=e10]/descr", "string", false, []string{"a", "b"}},
	{"/if[name=e10]/mtu", "uint", false, []string{"1000", "2000"}},
	{"/if[name=e1]/unit[id=1]/descr", "string", false, []string{"u", "v"}},
	{"/if[name=e1]/unit[id=10]/descr", "string", false, []string{"u", "v"}},
	{"/if[name=e1]/oper-state", "string", true, []string{"up", "down"}},
	{"/if[name=e10]/oper-state", "string", true, []string{"up", "down"}},
	{"/stats/rx", "uint", true, []string{"10", "20"}},
	{"/if-x[name=e1]/val", "string", false, []string{"x", "y"}},
	{"/ifx", "string", false, []string{"s", "t"}},
	{"/peer[name=n1][zone=z1]/as", "uint", false, []string{"1", "2"}},
	{"/duo[k1=a][k2=b]/v", "string", false, []string{"p", "q"}},
	{"/duo[k1=a][k2=a]/v", "string", false, []string{"p", "q"}},
	// deeper nesting: several leaves of one message share a prefix of three or four elements
	{"/if[name=e1]/unit[id=1]/qos/in", "string", false, []string{"i1", "i2"}},
	{"/if[name=e1]/unit[id=1]/qos/out", "string", false, []string{"o1", "o2"}},
	{"/if[name=e1]/unit[id=1]/qos/sched/mode", "string", false, []string{"wrr", "sp"}},
	{"/if[name=e1]/unit[id=1]/qos/sched/weight", "uint", false, []string{"10", "20"}},
	// leaf-lists: reported with one update per element, the element as key of the last path element and no value
	{"/if[name=e1]/addrs", "llkeys", false, []string{"LL:a1,a2", "LL:a3", "LL:a2,a1,a4"}},
	{"/if[name=e10]/addrs", "llkeys", false, []string{"LL:b1,b2", "LL:b3"}},
	{"/sys/dns", "llkeys", false, []string{"LL:d1,d2", "LL:d3"}},
}

var c13DeleteTargets = []string{"/if[name=e1]/oper-state", "/stats/rx", "/if[name=e10]/oper-state", "/if[name=e1]", "/if[name=e10]", "/if[name=e1]/unit[id=1]", "/sys/log", "/sys/mtu", "/if[name=e1]/mtu", "/duo[k1=a][k2=a]", "/ifx", "/if-x[name=e1]", "/sys/descr", "/peer[name=n1][zone=z1]"}

// keyKinds: value kind of key leaves
func c13KeyKind(p string) string {
	if strings.HasSuffix(p, "/id") {
		return "uint"
	}
	return "string"
}

// one scripted item
type syncItem struct {
	// Prefix: how many leading path elements common to all paths of the notification travel in the gNMI prefix
	// (only the gNMI delivery modes can say that)
	Prefix            int
	Start, End, Force bool
	Barrier           bool // harness barrier (quiescence), not sent to the server as such
	Upds              []syncUpd
	Dels              []string
}

type syncUpd struct {
	Path string
	Val  string
	Form string // typed | string | json
	JSON map[string]any
}

func (it syncItem) String() string {
	switch {
	case it.Start:
		return fmt.Sprintf("START(force=%v)", it.Force)
	case it.End:
		return "END"
	case it.Barrier:
		return "BARRIER"
	}
	p := []string{}
	for _, d := range it.Dels {
		p = append(p, "del "+d)
	}
	for _, u := range it.Upds {
		if u.Form == "json" {
			b, _ := json.Marshal(u.JSON)
			p = append(p, fmt.Sprintf("%s=JSON%s", u.Path, b))
		} else {
			p = append(p, fmt.Sprintf("%s=%s(%s)", u.Path, u.Val, u.Form))
		}
	}
	if it.Prefix > 0 {
		return fmt.Sprintf("N(prefix<=%d){", it.Prefix) + strings.Join(p, "; ") + "}"
	}
	return "N{" + strings.Join(p, "; ") + "}"
}

// touched returns the parent-most paths the notification writes or deletes.
func (it syncItem) touched() []model.Path {
	var r []model.Path
	for _, d := range it.Dels {
		r = append(r, model.Parse(d))
	}
	for _, u := range it.Upds {
		p := model.Parse(u.Path)
		if u.Form != "json" && len(p) > 1 {
			// key leaves of every list entry on the path are written too: the entry is the unit
			for i, e := range p {
				if len(e.Keys) > 0 {
					p = p[:i+1]
					break
				}
			}
		}
		r = append(r, p)
	}
	return r
}

func conflicts(a, b syncItem) bool {
	for _, x := range a.touched() {
		for _, y := range b.touched() {
			if x.Covers(y) || y.Covers(x) {
				return true
			}
		}
	}
	return false
}

// mirror is the sequential reference model.
type mirror struct {
	config   map[string]string
	state    map[string]string
	cfgCycle map[string]int // cycle in which the path was last written
	stCycle  map[string]int
	cycle    int
	inCycle  bool
	validate bool
}

func newMirror(validate bool) *mirror {
	return &mirror{config: map[string]string{}, state: map[string]string{}, cfgCycle: map[string]int{}, stCycle: map[string]int{}, validate: validate}
}

var c13State = map[string]bool{}

func init() {
	for _, l := range c13Leaves {
		if l.state {
			c13State[leafSchemaPath(l.path)] = true
		}
	}
}

func leafSchemaPath(p string) string {
	var parts []string
	for _, e := range model.Parse(p) {
		parts = append(parts, e.Name)
	}
	return strings.Join(parts, "/")
}

func (m *mirror) write(p, v string) {
	if m.validate && (c13State[leafSchemaPath(p)] || strings.HasPrefix(p, "/stats/")) {
		m.state[p] = v
		m.stCycle[p] = m.cycle
		return
	}
	m.config[p] = v
	m.cfgCycle[p] = m.cycle
}

func (m *mirror) apply(it syncItem) {
	switch {
	case it.Start:
		m.cycle++
		m.inCycle = true
		return
	case it.End:
		if m.inCycle {
			for p, cy := range m.cfgCycle {
				if cy < m.cycle {
					delete(m.config, p)
					delete(m.cfgCycle, p)
				}
			}
			for p, cy := range m.stCycle {
				if cy < m.cycle {
					delete(m.state, p)
					delete(m.stCycle, p)
				}
			}
		}
		m.inCycle = false
		return
	case it.Barrier:
		return
	}
	// a notification: deletes first, then updates
	for _, d := range it.Dels {
		dp := model.Parse(d)
		for p := range m.config {
			if dp.Covers(model.Parse(p)) {
				delete(m.config, p)
				delete(m.cfgCycle, p)
			}
		}
		// with sync validation a delete goes to the store its schema node belongs to: a state leaf leaves the state store,
		// a config subtree the config store (state leaves below it are reported deleted one by one by a device)
		if m.validate && (c13State[leafSchemaPath(d)] || strings.HasPrefix(d, "/stats/")) {
			for p := range m.state {
				if dp.Covers(model.Parse(p)) {
					delete(m.state, p)
					delete(m.stCycle, p)
				}
			}
		}
	}
	for _, u := range it.Upds {
		p := model.Parse(u.Path)
		if u.Form == "json" {
			for k, v := range u.JSON {
				lp := p.Child(k)
				m.write(lp.String(), fmt.Sprint(v))
				for kp, kv := range lp.KeyLeaves() {
					m.write(kp, kv)
				}
			}
			continue
		}
		m.write(p.String(), u.Val)
		for kp, kv := range p.KeyLeaves() {
			m.write(kp, kv)
		}
	}
}

func (it syncItem) toSyncUpdate() *target.SyncUpdate {
	if it.Start {
		return &target.SyncUpdate{Start: true, Force: it.Force}
	}
	if it.End {
		return &target.SyncUpdate{End: true}
	}
	n := &sdcpb.Notification{Timestamp: 1}
	for _, d := range it.Dels {
		n.Delete = append(n.Delete, model.Parse(d).ToPb())
	}
	for _, u := range it.Upds {
		var tv *sdcpb.TypedValue
		switch u.Form {
		case "json":
			b, _ := json.Marshal(u.JSON)
			tv = &sdcpb.TypedValue{Value: &sdcpb.TypedValue_JsonVal{JsonVal: b}}
		case "typed":
			tv = kindTv("uint", u.Val)
		case "llkeys":
			for _, el := range strings.Split(strings.TrimPrefix(u.Val, "LL:"), ",") {
				p := model.Parse(u.Path)
				p[len(p)-1].Keys = map[string]string{p[len(p)-1].Name: el}
				n.Update = append(n.Update, &sdcpb.Update{Path: p.ToPb()})
			}
			continue
		default:
			tv = strTv(u.Val)
		}
		n.Update = append(n.Update, &sdcpb.Update{Path: model.Parse(u.Path).ToPb(), Value: tv})
	}
	return &target.SyncUpdate{Update: n}
}

// toGNMI is the notification as a gNMI device sends it.
func (it syncItem) toGNMI() *gnmi.Notification {
	n := &gnmi.Notification{Timestamp: 1}
	// the common prefix of all paths of the message
	var all []model.Path
	for _, d := range it.Dels {
		all = append(all, model.Parse(d))
	}
	for _, u := range it.Upds {
		all = append(all, model.Parse(u.Path))
	}
	plen := 0
	if it.Prefix > 0 && len(all) > 0 {
		plen = it.Prefix
		for _, p := range all {
			if len(p)-1 < plen {
				plen = len(p) - 1
			}
		}
		for i := 0; i < plen; i++ {
			for _, p := range all[1:] {
				if p[:i+1].String() != all[0][:i+1].String() {
					plen = i
				}
			}
		}
		if plen > 0 {
			n.Prefix = fixture.ToGPath(all[0][:plen])
		}
	}
	rel := func(s string) model.Path { return model.Parse(s)[plen:] }
	for _, d := range it.Dels {
		n.Delete = append(n.Delete, fixture.ToGPath(rel(d)))
	}
	for _, u := range it.Upds {
		var tv *gnmi.TypedValue
		switch u.Form {
		case "json":
			b, _ := json.Marshal(u.JSON)
			tv = &gnmi.TypedValue{Value: &gnmi.TypedValue_JsonVal{JsonVal: b}}
		case "typed":
			x, _ := strconv.ParseUint(u.Val, 10, 64)
			tv = &gnmi.TypedValue{Value: &gnmi.TypedValue_UintVal{UintVal: x}}
		case "llkeys":
			for _, el := range strings.Split(strings.TrimPrefix(u.Val, "LL:"), ",") {
				p := rel(u.Path)
				p[len(p)-1].Keys = map[string]string{p[len(p)-1].Name: el}
				n.Update = append(n.Update, &gnmi.Update{Path: fixture.ToGPath(p)})
			}
			continue
		default:
			tv = &gnmi.TypedValue{Value: &gnmi.TypedValue_StringVal{StringVal: u.Val}}
		}
		n.Update = append(n.Update, &gnmi.Update{Path: fixture.ToGPath(rel(u.Path)), Val: tv})
	}
	return n
}

// genScript draws a script; for W>1 notifications are grouped into batches of pairwise independent notifications
// separated by barriers.
func genScript(rng *core.Rng, W int, allowMultiJSON bool) []syncItem {
	var script []syncItem
	mkNotif := func() syncItem {
		it := syncItem{}
		nd := 0
		if rng.Chance(1, 3) {
			nd = 1 + rng.Intn(2)
		}
		for i := 0; i < nd; i++ {
			it.Dels = append(it.Dels, c13DeleteTargets[rng.Intn(len(c13DeleteTargets))])
		}
		nu := rng.Intn(4)
		if nd == 0 && nu == 0 {
			nu = 1
		}
		hasJSON := false
		for i := 0; i < nu; i++ {
			if rng.Chance(1, 6) && (allowMultiJSON || !hasJSON) {
				hasJSON = true
				if rng.Bool() {
					it.Upds = append(it.Upds, syncUpd{Path: "/sys", Form: "json", JSON: map[string]any{"descr": "j" + fmt.Sprint(rng.Intn(3)), "name": "jn"}})
				} else {
					it.Upds = append(it.Upds, syncUpd{Path: "/if[name=e1]", Form: "json", JSON: map[string]any{"descr": "jd", "mtu": 1200 + rng.Intn(3)}})
				}
				continue
			}
			l := c13Leaves[rng.Intn(len(c13Leaves))]
			form := "string"
			if l.kind == "uint" && rng.Bool() {
				form = "typed"
			}
			if l.kind == "llkeys" {
				form = "llkeys"
			}
			it.Upds = append(it.Upds, syncUpd{Path: l.path, Val: l.vals[rng.Intn(len(l.vals))], Form: form})
		}
		// within one notification deletes are applied before updates; keep updates of one notification on distinct leaves
		// (two updates for one leaf inside one notification - also through a JSON blob - have no defined winner)
		var us []syncUpd
		for _, u := range it.Upds {
			clash := false
			for _, o := range us {
				a, b := model.Parse(o.Path), model.Parse(u.Path)
				if a.Covers(b) || b.Covers(a) {
					clash = true
				}
			}
			if !clash {
				us = append(us, u)
			}
		}
		it.Upds = us
		if rng.Chance(1, 2) {
			it.Prefix = 1 + rng.Intn(4)
		}
		return it
	}
	var batch []syncItem
	addNotifs := func(n int) {
		for i := 0; i < n; i++ {
			it := mkNotif()
			if W > 1 {
				clash := false
				for _, b := range batch {
					if conflicts(b, it) {
						clash = true
					}
				}
				if clash || len(batch) >= W {
					script = append(script, syncItem{Barrier: true})
					batch = nil
				}
				batch = append(batch, it)
			}
			script = append(script, it)
		}
	}
	segs := 1 + rng.Intn(3)
	first := true
	for s := 0; s < segs; s++ {
		if rng.Chance(2, 3) {
			// no harness barrier around the markers: Start and End themselves must wait for the writes in flight
			script = append(script, syncItem{Start: true, Force: first})
			first = false
			batch = nil
			addNotifs(2 + rng.Intn(7))
			script = append(script, syncItem{End: true})
			batch = nil
		} else {
			addNotifs(2 + rng.Intn(7))
		}
	}
	return script
}

// directed scripts for the recorded known findings (and their fixed relatives)
type directedScript struct {
	name     string
	W        int
	validate bool
	script   []syncItem
	reverse  bool // release parked writes newest first
}

func upd(p, v string) syncItem {
	return syncItem{Upds: []syncUpd{{Path: p, Val: v, Form: "string"}}}
}

var c13Directed = []directedScript{
	{"two updates of one path in flight, second completes first", 2, false, []syncItem{upd("/sys/descr", "1"), upd("/sys/descr", "2")}, true},
	{"delete of entry and re-creating update in flight, update completes first", 2, false, []syncItem{upd("/if[name=e1]/descr", "old"), {Barrier: true}, {Dels: []string{"/if[name=e1]"}}, upd("/if[name=e1]/descr", "new")}, true},
	{"delete /if[name=e1] keeps e10", 1, false, []syncItem{upd("/if[name=e1]/descr", "a"), upd("/if[name=e10]/descr", "b"), {Dels: []string{"/if[name=e1]"}}}, false},
	{"delete leaf mtu keeps mtu-max", 1, false, []syncItem{upd("/sys/mtu", "1500"), upd("/sys/mtu-max", "9000"), {Dels: []string{"/sys/mtu"}}}, false},
	{"re-sync drops unreported path", 1, false, []syncItem{{Start: true, Force: true}, upd("/sys/descr", "old"), upd("/sys/name", "gone"), {End: true}, {Barrier: true}, {Start: true}, upd("/sys/descr", "new"), {End: true}}, false},
	{"write of cycle 1 still pending when cycle 1 ends and cycle 2 starts", 2, false, []syncItem{{Start: true, Force: true}, upd("/sys/name", "gone-in-cycle-2"), {End: true}, {Start: true}, upd("/sys/descr", "new"), {End: true}}, false},
	{"two JSON blobs and a plain leaf in one notification", 1, false, []syncItem{{Upds: []syncUpd{
		{Path: "/sys", Form: "json", JSON: map[string]any{"descr": "j1"}},
		{Path: "/if[name=e1]", Form: "json", JSON: map[string]any{"descr": "j2"}},
		{Path: "/ifx", Val: "plain", Form: "string"}}}}, false},
	{"plain leaf before a JSON blob in one notification", 1, true, []syncItem{{Upds: []syncUpd{
		{Path: "/ifx", Val: "plain", Form: "string"},
		{Path: "/sys", Form: "json", JSON: map[string]any{"descr": "j1"}}}}}, false},
	{"state leaf routing", 1, true, []syncItem{upd("/if[name=e1]/oper-state", "up"), upd("/if[name=e1]/descr", "cfg"), upd("/stats/rx", "10")}, false},
}

func waitFor(d time.Duration, cond func() bool) bool {
	deadline := time.Now().Add(d)
	for !cond() {
		if time.Now().After(deadline) {
			return false
		}
		time.Sleep(2 * time.Millisecond)
	}
	return true
}

type gateCtl struct {
	mu      sync.Mutex
	gating  bool
	arrive  chan *gateHeld
	barrier chan *gateHeld
}

type gateHeld struct {
	seq  int
	desc string
	rel  chan struct{}
}

func (c *c13) RunCase(w *core.Worker, idx int, seed uint64, res *core.CaseResult) {
	rng := core.NewRng(seed)
	var script []syncItem
	W := []int{1, 2, 16}[idx%3]
	validate := (idx/3)%2 == 0
	reverse := false
	directed := ""
	if idx < len(c13Directed) {
		d := c13Directed[idx]
		script, W, validate, reverse, directed = d.script, d.W, d.validate, d.reverse, d.name
	} else {
		script = genScript(rng, W, false)
	}
	// wire modes: the production gNMI target (gnmic client over gRPC) subscribed to a gNMI device on loopback delivers
	// the notifications ("stream": on-change subscription; "get": periodic Get, every cycle a complete re-sync)
	wire := ""
	if directed == "" {
		switch (idx - len(c13Directed)) % 8 {
		case 6:
			wire = "stream"
			var f []syncItem
			for _, it := range script {
				if it.Start || it.End {
					// (the markers made the main loop wait for the writes in flight: the batches of pairwise
					// independent notifications end there)
					it = syncItem{Barrier: true}
				}
				f = append(f, it)
			}
			script = f
		case 7:
			wire = "get"
			script = nil
		case 5:
			wire = "nc-get"
			script = nil
		case 4:
			wire = "once"
			script = nil
			// successive rounds report the same paths again: with more than one write worker two reports of one path are
			// in flight together, which is the recorded finding (applied in completion order), not what this mode is about
			W = 1
		}
	}
	desc := fmt.Sprintf("W=%d validate=%v", W, validate)
	if wire != "" {
		desc += " wire=" + wire
	}
	if directed != "" {
		desc += " directed: " + directed
	}
	res.Tracef("%s", desc)
	for _, it := range script {
		res.Tracef("  %s", it)
	}
	fc := fixture.NewFaultCache(c.env.Cache)
	g := &gateCtl{arrive: make(chan *gateHeld, 256), barrier: make(chan *gateHeld, 64), gating: true}
	seq := 0
	var seqMu sync.Mutex
	fc.ModifyGate = func(cc fixture.CacheCall, dels [][]string, upds []*cache.Update) {
		if cc.Store != cachepb.Store_CONFIG && cc.Store != cachepb.Store_STATE {
			return
		}
		isBarrier := len(upds) == 1 && len(upds[0].GetPath()) == 1 && upds[0].GetPath()[0] == "verif-barrier"
		seqMu.Lock()
		seq++
		h := &gateHeld{seq: seq, rel: make(chan struct{})}
		seqMu.Unlock()
		for _, d := range dels {
			h.desc += "del:" + strings.Join(d, ",") + " "
		}
		for _, u := range upds {
			tv, _ := u.Value()
			h.desc += "upd:" + strings.Join(u.GetPath(), ",") + "=" + model.TvString(tv) + " "
		}
		if isBarrier {
			g.barrier <- h
			<-h.rel
			return
		}
		g.mu.Lock()
		on := g.gating
		g.mu.Unlock()
		if !on {
			return
		}
		g.arrive <- h
		<-h.rel
	}
	dsOpts := fixture.DSOpts{Cache: fc, Sync: &config.Sync{Validate: validate, Buffer: 4096, WriteWorkers: int64(W)}}
	var gdev *fixture.GNMIDevice
	var ncdev *fixture.NCDevice
	if wire == "nc-get" {
		// the production NETCONF target (scrapligo over SSH) fetches the configuration of a NETCONF device on loopback
		// periodically; every get-config is a complete re-sync cycle (xml2SchemapbAdapter, ncTarget.internalSync)
		var err error
		if ncdev, err = fixture.NewNCDevice(); err != nil {
			res.Inconclusive("C13/wire/no-device", "%v", err)
			return
		}
		defer ncdev.Close()
		sbi := &config.SBI{Type: "netconf", Address: "127.0.0.1", Port: ncdev.Port(), ConnectRetry: time.Second, Timeout: 3 * time.Second,
			Credentials: &config.Creds{Username: "u", Password: "p"}, NetconfOptions: &config.SBINetconfOptions{CommitDatastore: "candidate"}}
		scb := schemaClient.NewSchemaClientBound(fixture.SchemaConfig().GetSchema(), c.env.Schema)
		tg, err := target.New(context.Background(), "c13n", sbi, scb)
		if err != nil {
			res.Inconclusive("C13/wire/connect", "%v", err)
			return
		}
		dsOpts.Target = tg
		dsOpts.Sync.Config = []*config.SyncProtocol{{Name: "config", Protocol: "netconf", Paths: []string{"/sys", "/if", "/if-x", "/ifx", "/peer", "/duo"}, Interval: 60 * time.Millisecond}}
		res.Count("netconf_wire_cases", 1)
	}
	if wire == "stream" || wire == "get" || wire == "once" {
		var err error
		if gdev, err = fixture.NewGNMIDevice(); err != nil {
			res.Inconclusive("C13/wire/no-device", "%v", err)
			return
		}
		defer gdev.Close()
		sbi := &config.SBI{Type: "gnmi", Address: "127.0.0.1", Port: gdev.Port(), GnmiOptions: &config.SBIGnmiOptions{Encoding: "proto"}}
		tg, err := target.New(context.Background(), "c13w", sbi, nil)
		if err != nil {
			res.Inconclusive("C13/wire/connect", "%v", err)
			return
		}
		dsOpts.Target = tg
		dsOpts.Sync.Config = []*config.SyncProtocol{{Name: "config", Protocol: "gnmi", Mode: "on-change", Paths: []string{"/sys"}, Encoding: "proto"}}
		if wire == "get" {
			gdev.SetGetNotifs([]*gnmi.Notification{})
			dsOpts.Sync.Config = append(dsOpts.Sync.Config, &config.SyncProtocol{Name: "get", Protocol: "gnmi", Mode: "get", Paths: []string{"/"}, Interval: 60 * time.Millisecond, Encoding: "PROTO"})
		}
		if wire == "once" {
			// periodic ONCE subscriptions: every round reports what the device holds, nothing marks the end of a round
			// (no pruning: the running store is what was reported so far, the latest value of each path)
			gdev.SetGetNotifs([]*gnmi.Notification{})
			dsOpts.Sync.Config = append(dsOpts.Sync.Config, &config.SyncProtocol{Name: "once", Protocol: "gnmi", Mode: "once", Paths: []string{"/sys"}, Interval: 60 * time.Millisecond, Encoding: "proto"})
		}
	}
	ds := c.env.NewDS(dsOpts)
	defer ds.Close()
	ctx, cancel := context.WithCancel(context.Background())
	defer cancel()
	go ds.Sync(ctx)
	ch := ds.VerifSyncCh()
	m := newMirror(validate)
	send := func(it syncItem) { ch <- it.toSyncUpdate() }
	if gdev != nil {
		if !waitFor(10*time.Second, func() bool { return gdev.NumSubscribers() >= 1 }) {
			res.Inconclusive("C13/wire/no-subscription", "%s: the target did not subscribe within 10 s", desc)
			return
		}
		send = func(it syncItem) { gdev.Push(it.toGNMI()) }
		res.Count("gnmi_wire_cases:"+wire, 1)
	}

	// controller: releases parked writes in PRNG order until W barriers are parked
	barrier := func() bool {
		for i := 0; i < W; i++ {
			send(syncItem{Upds: []syncUpd{{Path: "/verif-barrier", Val: fmt.Sprint(i), Form: "typed"}}})
		}
		var parked []*gateHeld
		var barriers []*gateHeld
		deadline := time.Now().Add(20 * time.Second)
		for len(barriers) < W {
			select {
			case h := <-g.arrive:
				parked = append(parked, h)
				continue
			case b := <-g.barrier:
				barriers = append(barriers, b)
				continue
			case <-time.After(1500 * time.Microsecond):
			}
			if len(parked) > 0 {
				i := rng.Intn(len(parked))
				if reverse {
					// the write of the later notification first (directed scripts are written such that it sorts last)
					i = 0
					for j, p := range parked {
						if p.desc > parked[i].desc {
							i = j
						}
					}
					// give the other writer time to park as well
					if len(parked) < 2 && W > 1 {
						select {
						case h := <-g.arrive:
							parked = append(parked, h)
							continue
						case <-time.After(20 * time.Millisecond):
						}
					}
				}
				h := parked[i]
				parked = append(parked[:i], parked[i+1:]...)
				close(h.rel)
				res.Count("writes_released_in_chosen_order", 1)
				if reverse {
					time.Sleep(3 * time.Millisecond)
				}
			}
			if time.Now().After(deadline) {
				for _, p := range parked {
					close(p.rel)
				}
				for _, b := range barriers {
					close(b.rel)
				}
				return false
			}
		}
		// all W barriers are parked: every earlier notification has been stored. Anything still parked belongs to nobody.
		cfg, _ := fixture.DumpStore(ctx, c.env.Cache, ds.Name, cachepb.Store_CONFIG)
		st, _ := fixture.DumpStore(ctx, c.env.Cache, ds.Name, cachepb.Store_STATE)
		c.compare(res, desc, m, cfg, st, validate, W, directed)
		for _, b := range barriers {
			close(b.rel)
		}
		res.Count("quiescent_points_compared", 1)
		return true
	}
	nNotif, nDel, prunes := 0, 0, 0
	if wire == "once" {
		for round := 0; round < 3 && len(res.Findings) == 0; round++ {
			var notifs []*gnmi.Notification
			var cur syncItem
			flush := func() {
				if len(cur.Upds) == 0 {
					return
				}
				if rng.Bool() {
					cur.Prefix = 1 + rng.Intn(4)
				}
				notifs = append(notifs, cur.toGNMI())
				m.apply(cur)
				script = append(script, cur)
				cur = syncItem{}
			}
			for _, l := range c13Leaves {
				if l.state || !rng.Chance(1, 2) {
					continue
				}
				form := "string"
				if l.kind == "uint" && rng.Bool() {
					form = "typed"
				}
				if l.kind == "llkeys" {
					form = "llkeys"
				}
				cur.Upds = append(cur.Upds, syncUpd{Path: l.path, Val: l.vals[rng.Intn(len(l.vals))], Form: form})
				if rng.Chance(1, 4) {
					flush()
				}
			}
			flush()
			nNotif += len(notifs)
			gdev.SetGetNotifs(notifs)
			o0 := gdev.NumOnces()
			if !waitFor(20*time.Second, func() bool { return gdev.NumOnces() >= o0+2 }) {
				res.Inconclusive("C13/wire/once-rounds", "%s: no two ONCE subscriptions within 20 s", desc)
				return
			}
			res.Count("once_rounds_awaited", 1)
			if !barrier() {
				res.Inconclusive("C13/barrier-timeout", "%s: the barrier was not reached within 20 s", desc)
				return
			}
		}
		for _, it := range script {
			res.Tracef("  %s", it)
		}
	}
	if wire == "get" || wire == "nc-get" {
		// every Get is a complete re-sync cycle (start, what the device holds, end): after a cycle that began after the
		// device changed, the running store is exactly what the device holds
		g.mu.Lock()
		g.gating = false
		g.mu.Unlock()
		for cycle := 0; cycle < 3 && len(res.Findings) == 0; cycle++ {
			m = newMirror(validate)
			var notifs []*gnmi.Notification
			var cur syncItem
			for _, l := range c13Leaves {
				if l.state || !rng.Chance(1, 2) {
					continue
				}
				form := "string"
				if l.kind == "uint" && rng.Bool() {
					form = "typed"
				}
				if l.kind == "llkeys" {
					form = "llkeys"
				}
				cur.Upds = append(cur.Upds, syncUpd{Path: l.path, Val: l.vals[rng.Intn(len(l.vals))], Form: form})
				if rng.Chance(1, 4) {
					if rng.Bool() {
						cur.Prefix = 1 + rng.Intn(4)
					}
					notifs = append(notifs, cur.toGNMI())
					m.apply(cur)
					script = append(script, cur)
					cur = syncItem{}
				}
			}
			if len(cur.Upds) > 0 {
				notifs = append(notifs, cur.toGNMI())
				m.apply(cur)
				script = append(script, cur)
			}
			script = append(script, syncItem{End: true})
			nNotif += len(notifs)
			prunes++
			numGets := func() int { return 0 }
			if wire == "get" {
				gdev.SetGetNotifs(notifs)
				numGets = gdev.NumGets
			} else {
				ncdev.SetGetConfigDoc(model.EncodeXML(m.config))
				numGets = ncdev.NumGetConfigs
			}
			// quiescence by observation, not by time: (1) two Get rpcs after the change have arrived (the cycle of the
			// first is completely in the sync channel), (2) the sync channel has been drained, (3) after that a cycle
			// has been started and (4) a cycle has been ended and pruned
			g0 := numGets()
			ok := waitFor(20*time.Second, func() bool { return numGets() >= g0+2 }) &&
				waitFor(20*time.Second, func() bool { return len(ch) == 0 })
			if ok {
				c1 := fc.Count("CreatePruneID")
				ok = waitFor(20*time.Second, func() bool { return fc.Count("CreatePruneID") > c1 })
			}
			if ok {
				a1 := fc.Count("ApplyPrune.done")
				ok = waitFor(20*time.Second, func() bool { return fc.Count("ApplyPrune.done") > a1 })
			}
			if !ok {
				res.Inconclusive("C13/wire/get-cycles", "%s: no complete re-sync cycle observed within 20 s", desc)
				return
			}
			res.Count("get_cycles_awaited", 1)
			cfg, _ := fixture.DumpStore(ctx, c.env.Cache, ds.Name, cachepb.Store_CONFIG)
			st, _ := fixture.DumpStore(ctx, c.env.Cache, ds.Name, cachepb.Store_STATE)
			c.compare(res, desc, m, cfg, st, validate, W, directed)
			res.Count("quiescent_points_compared", 1)
		}
		for _, it := range script {
			res.Tracef("  %s", it)
		}
	}
	for _, it := range script {
		if wire == "get" || wire == "nc-get" || wire == "once" {
			break
		}
		if len(res.Findings) > 0 {
			break
		}
		if it.Barrier {
			if !barrier() {
				res.Inconclusive("C13/barrier-timeout", "%s: the barrier was not reached within 20 s", desc)
				return
			}
			continue
		}
		m.apply(it)
		send(it)
		if it.End {
			prunes++
		}
		if !it.Start && !it.End {
			nNotif++
			nDel += len(it.Dels)
		}
	}
	if len(res.Findings) == 0 && wire != "get" && wire != "nc-get" && wire != "once" {
		if !barrier() {
			res.Inconclusive("C13/barrier-timeout", "%s: the final barrier was not reached within 20 s", desc)
			return
		}
	}
	res.Count("notifications", nNotif)
	res.Count(fmt.Sprintf("scripts_W=%d", W), 1)
	sd := []string{}
	for _, it := range script {
		sd = append(sd, it.String())
	}
	res.Hash = core.HashOf(append([]string{desc}, sd...)...)
	res.NonTrivial = (nDel > 0 || prunes > 0) && nNotif >= 6 || directed != ""
	if idx == len(c13Directed) || idx == 0 {
		res.Sample = map[string]any{"config": desc, "script": sd}
	}
}

func (c *c13) compare(res *core.CaseResult, desc string, m *mirror, cfg, st map[string]string, validate bool, W int, directed string) {
	norm := func(in map[string]string) map[string]string {
		out := map[string]string{}
		for k, v := range in {
			if k == "verif-barrier" {
				continue
			}
			out[k] = v
		}
		return out
	}
	cfg, st = norm(cfg), norm(st)
	want := map[string]string{}
	for p, v := range m.config {
		want[model.CachePath(model.Parse(p))] = v
	}
	suffix := ""
	if W > 1 {
		suffix = "/workers>1"
	}
	violate := res.Violate
	if strings.Contains(directed, "in flight") {
		// directed scripts that put two notifications for one subtree in flight and let the later one complete first
		violate = func(key, format string, a ...any) {
			res.Violate("C13/concurrently-processed-notifications-for-one-path-applied-out-of-order", format, a...)
		}
	}
	keys := map[string]bool{}
	for k := range want {
		keys[k] = true
	}
	for k := range cfg {
		keys[k] = true
	}
	ks := make([]string, 0, len(keys))
	for k := range keys {
		ks = append(ks, k)
	}
	sort.Strings(ks)
	for _, k := range ks {
		wv, wok := want[k]
		gv, gok := cfg[k]
		switch {
		case wok && !gok:
			violate("C13/missing-in-running"+suffix, "%s: running store lacks %s=%s (the device reported it)", desc, k, wv)
		case !wok && gok:
			violate("C13/stale-in-running"+suffix, "%s: running store still has %s=%s (the device's last report does not contain it)", desc, k, gv)
		case wv != gv:
			violate("C13/wrong-value-in-running"+suffix, "%s: running store has %s=%s, the device last reported %s", desc, k, gv, wv)
		}
	}
	if validate {
		for p, v := range m.state {
			k := model.CachePath(model.Parse(p))
			if gv, ok := st[k]; !ok {
				res.Violate("C13/state-leaf-missing-in-state-store"+suffix, "%s: state store lacks %s=%s", desc, k, v)
			} else if gv != v {
				res.Violate("C13/state-leaf-wrong-value"+suffix, "%s: state store has %s=%s, last reported %s", desc, k, gv, v)
			}
		}
	}
	res.Count("leaves_compared", len(ks)+len(m.state))
}
