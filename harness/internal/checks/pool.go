package checks

import (
	"strings"

	sdcpb "github.com/sdcio/sdc-protos/sdcpb"

	"verifharness/internal/model"
)

// LeafDef is one leaf instance of the generator pool.
type LeafDef struct {
	XPath string   // canonical instance path
	Vals  []string // small value domain (lexical forms, all valid for the type)
	Kind  string   // string | uint | bool | empty | ll (leaf-list of strings)
}

// poolBase: plain containers, lists with 1..3 keys (alphabetical and non-alphabetical key statements),
// prefix related names and key values, nested list.
var poolBase = []LeafDef{
	{"/sys/descr", []string{"a", "b", "c"}, "string"},
	{"/sys/name", []string{"r1", "r2"}, "string"},
	{"/sys/mtu-max", []string{"100", "200"}, "uint"},
	{"/sys/log/host", []string{"h1", "h2"}, "string"},
	{"/if[name=e1]/descr", []string{"a", "b"}, "string"},
	{"/if[name=e1]/mtu", []string{"1000", "2000"}, "uint"},
	{"/if[name=e10]/descr", []string{"a", "b"}, "string"},
	{"/if[name=e10]/mtu", []string{"1000", "2000"}, "uint"},
	{"/if[name=e1]/cfg/speed", []string{"auto", "full"}, "string"},
	{"/if[name=e1]/unit[id=1]/descr", []string{"u", "v"}, "string"},
	{"/if[name=e1]/unit[id=1]/vlan", []string{"10", "20"}, "uint"},
	{"/if[name=e1]/unit[id=10]/vlan", []string{"10", "20"}, "uint"},
	{"/if-x[name=e1]/val", []string{"x", "y"}, "string"},
	{"/ifx", []string{"s", "t"}, "string"},
	{"/duo[k1=a][k2=b]/v", []string{"p", "q"}, "string"},
	{"/duo[k1=b][k2=a]/v", []string{"p", "q"}, "string"},
	{"/duo[k1=a][k2=a]/v", []string{"p", "q"}, "string"},
	{"/sys/b-leaf", []string{"bb", "cc"}, "string"},
	{"/sys/b-cont/bl[k=k1]/v", []string{"v1", "v2"}, "string"},
	{"/peer-group[name=n1]/as", []string{"7", "8"}, "uint"},
}

// poolMultiKey: lists whose key statement is not in alphabetical order.
var poolMultiKey = []LeafDef{
	{"/peer[name=n1][zone=z1]/as", []string{"1", "2"}, "uint"},
	{"/peer[name=z1][zone=n1]/as", []string{"3", "4"}, "uint"},
	{"/peer[name=n1][zone=z1]/timers/hold", []string{"30", "90"}, "uint"},
	{"/tri[a=k][b=1][c=x]/v", []string{"p", "q"}, "string"},
	{"/tri[a=k][b=1][c=x]/w", []string{"p", "q"}, "string"},
	{"/tri[a=x][b=1][c=y]/v", []string{"p", "q"}, "string"},
}

// poolKeyOnly: list entries that consist of nothing but their keys (the intent names the key leaf itself).
var poolKeyOnly = []LeafDef{
	{"/if[name=e7]/name", []string{"e7"}, "string"},
	{"/duo[k1=z][k2=y]/k2", []string{"y"}, "string"},
	{"/peer[name=k1][zone=k2]/zone", []string{"k2"}, "string"},
}

// poolImplicit: a leaf whose must refers to a default below a non-presence container of another branch (/sys/log/level,
// default info; used in pools that never set it): validators enter /sys/log whether or not anybody configured something
// there, an entry made for that purpose must not show up in what the device gets
var poolImplicit = []LeafDef{
	{"/cons/mst/k", []string{"kv", "kw"}, "string"},
}

// poolSlashKeys: list entries whose key values contain the path separator, one a "/"-prefix of the other (a port and its
// breakout ports): deleted together they are siblings, not ancestor and descendant.
var poolSlashKeys = []LeafDef{
	{"/if[name=e1/1]/descr", []string{"a", "b"}, "string"},
	{"/if[name=e1/1/1]/descr", []string{"a", "b"}, "string"},
	{"/if[name=e1/1/1]/mtu", []string{"1000", "2000"}, "uint"},
	{"/if[name=e1/1/descr]/mtu", []string{"1000", "2000"}, "uint"},
	{"/if[name=e1/1]/unit[id=1]/descr", []string{"u", "v"}, "string"},
}

// poolExtra: leaf-lists, presence containers, defaults.
var poolExtra = []LeafDef{
	{"/sys/dns", []string{"LL:a", "LL:a,b", "LL:b,a"}, "ll"},
	{"/pres2", []string{"EMPTY"}, "empty"},
	{"/sys/mtu", []string{"1500", "1400"}, "uint"},
	{"/if[name=e1]/enabled", []string{"true", "false"}, "bool"},
	{"/sys/log/level", []string{"info", "warn"}, "string"},
}

// poolPresence: a presence container that has its own variant and children (from possibly different owners)
var poolPresence = []LeafDef{
	{"/pres", []string{"EMPTY"}, "empty"},
	{"/pres/b", []string{"x", "y"}, "string"},
	{"/pres/a", []string{"dflt", "z"}, "string"},
}

// runningOnly are leaves no intent of the pool ever defines: unmanaged device configuration.
var runningOnly = []LeafDef{
	{"/sys/b-cont/x", []string{"keep1", "keep2"}, "string"},
	{"/if[name=e9]/descr", []string{"unmanaged"}, "string"},
	{"/if-x[name=e9]/val", []string{"unmanaged"}, "string"},
	{"/peer-group[name=g9]/as", []string{"9"}, "uint"},
	{"/if[name=e9]/unit[id=7]/descr", []string{"unmanaged"}, "string"},
	{"/duo[k1=z][k2=z]/v", []string{"unmanaged"}, "string"},
	{"/ch/other", []string{"o1"}, "string"},
}

// keyLeafKind is the value kind of a key leaf (a device reports the key leaves of every entry it reports).
func keyLeafKind(kp string) string {
	if strings.HasSuffix(kp, "/unit[id=1]/id") || strings.HasSuffix(kp, "/unit[id=10]/id") || strings.HasSuffix(kp, "/unit[id=7]/id") ||
		(strings.HasPrefix(kp, "/tri") && strings.HasSuffix(kp, "/b")) {
		return "uint"
	}
	return "string"
}

func kindTv(kind, v string) *sdcpb.TypedValue {
	switch kind {
	case "uint":
		var n uint64
		for _, c := range v {
			n = n*10 + uint64(c-'0')
		}
		return &sdcpb.TypedValue{Value: &sdcpb.TypedValue_UintVal{UintVal: n}}
	case "bool":
		return &sdcpb.TypedValue{Value: &sdcpb.TypedValue_BoolVal{BoolVal: v == "true"}}
	}
	return model.MkTv(v)
}

func poolFor(name string) []LeafDef {
	var p []LeafDef
	for _, part := range strings.Split(name, "+") {
		switch part {
		case "base":
			p = append(p, poolBase...)
		case "implicit":
			p = append(p, poolImplicit...)
		case "mk":
			p = append(p, poolMultiKey...)
		case "extra":
			p = append(p, poolExtra...)
		case "keyonly":
			p = append(p, poolKeyOnly...)
		case "slashkeys":
			p = append(p, poolSlashKeys...)
			p = append(p, poolSlashKeys...)
		case "pres":
			// (three times: a presence container with its own variant and children of the same owner is drawn often enough)
			p = append(p, poolPresence...)
			p = append(p, poolPresence...)
			p = append(p, poolPresence...)
		case "choice":
			p = append(p, poolChoice...)
		}
	}
	return p
}

func leafIndex(pools ...[]LeafDef) map[string]LeafDef {
	m := map[string]LeafDef{}
	for _, p := range pools {
		for _, l := range p {
			m[l.XPath] = l
		}
	}
	return m
}
