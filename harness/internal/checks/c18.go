package checks

import (
	"context"
	"fmt"
	"strings"
	"time"

	"github.com/sdcio/data-server/pkg/config"
	schemaClient "github.com/sdcio/data-server/pkg/datastore/clients/schema"
	"github.com/sdcio/data-server/pkg/datastore/target"

	"verifharness/internal/core"
	"verifharness/internal/fixture"
)

// C18: NETCONF edits are committed once or discarded.
// The production ncTarget runs against a recording fake driver; every driver call of every Set is failed
// once in every way (fault enumeration); a candidate model decides.

type c18 struct {
	h *hist
}

func init() { core.Register(&c18{}) }

func (c *c18) ID() string    { return "C18" }
func (c *c18) Level() string { return "fault_enumeration" }
func (c *c18) NumCases(tier string) int {
	if tier == "thorough" {
		return 1600
	}
	return 96
}
func (c *c18) Rule() string {
	return "one case = one PRNG history of transactions through the real datastore whose southbound target is the production NETCONF target (hook: injected driver) on a recording fake driver; configuration = commit-datastore {candidate, running} x the 8 combinations of include-ns / operation-with-namespace / use-operation-remove (case index mod 16); for every transaction every driver call of the fault-free call sequence is failed once with every kind {Go error (rpc-error), error containing EOF (dead connection, last step only), rpc-error warning reply, failing Discard} before the fault-free run, plus an unchanged re-submission (empty document); after each Set the recorded call sequence, the error answer and the candidate content of the device model are judged. distinct = request sequence + configuration; non-trivial = at least 3 injected faults were observed on non-empty documents"
}
func (c *c18) Assumptions() []string {
	return []string{
		"the Driver interface reports rpc-error replies with severity error as a Go error (as the scrapligo wrapper does) and warnings inside a successful reply",
		"a failed edit-config may have been applied partly: the candidate counts as dirty until discarded",
		"an error whose text contains EOF means the connection is dead; nothing more may be sent on it",
	}
}

func (c *c18) Setup(w *core.Worker) error {
	fixture.Quiet()
	env, err := fixture.NewEnv(w.Scratch)
	if err != nil {
		return err
	}
	c.h = &hist{env: env, owners: []string{"oa", "ob", "oc"}}
	return nil
}

func describeCalls(cs []fixture.DrvCall) string {
	p := []string{}
	for _, c := range cs {
		s := c.Method
		if c.Target != "" {
			s += "(" + c.Target + ")"
		}
		if c.Failed != "" {
			s += "!" + c.Failed
		}
		p = append(p, s)
	}
	return strings.Join(p, " ")
}

func (c *c18) RunCase(w *core.Worker, idx int, seed uint64, res *core.CaseResult) {
	rng := core.NewRng(seed)
	if idx%6 == 5 {
		c.wireCase(w, idx, rng, res)
		return
	}
	commitDS := "candidate"
	if idx%16 >= 8 {
		commitDS = "running"
	}
	opt := idx % 8
	sbi := &config.SBI{Type: "netconf", Address: "127.0.0.1", Port: 1, ConnectRetry: time.Hour, Timeout: time.Second,
		Credentials:    &config.Creds{Username: "u", Password: "p"},
		NetconfOptions: &config.SBINetconfOptions{IncludeNS: opt&1 != 0, OperationWithNamespace: opt&2 != 0, UseOperationRemove: opt&4 != 0, CommitDatastore: commitDS}}
	drv := fixture.NewFakeDrv()
	c.h.pool = poolFor(histPools[idx%4])
	c.h.mkTarget = func() target.Target {
		scb := schemaClient.NewSchemaClientBound(fixture.SchemaConfig().GetSchema(), c.h.env.Schema)
		return target.NewNCTargetWithDriver("c18", sbi, scb, drv)
	}
	run := c.h.start(rng, res, false, false)
	defer run.close()
	cfgDesc := fmt.Sprintf("commit-datastore=%s include-ns=%v op-with-ns=%v use-remove=%v", commitDS, opt&1 != 0, opt&2 != 0, opt&4 != 0)
	res.Tracef("%s", cfgDesc)
	steps := 5
	faults := 0
	judge := func(what string, calls []fixture.DrvCall, err error, faultAt int, kind string) {
		seq := describeCalls(calls)
		// nothing may be sent on a dead connection
		for _, cl := range calls {
			if cl.Failed == "sent-on-dead-connection" {
				res.Violate("C18/sent-on-dead-connection", "%s [%s]: %s", what, cfgDesc, seq)
			}
		}
		nEdit, nCommit := 0, 0
		for _, cl := range calls {
			switch cl.Method {
			case "EditConfig":
				nEdit++
				if cl.Target != commitDS {
					res.Violate("C18/wrong-datastore", "%s [%s]: edit-config on %s", what, cfgDesc, cl.Target)
				}
				if strings.TrimSpace(cl.Doc) == "" {
					res.Violate("C18/empty-edit-sent", "%s [%s]: an edit-config with an empty document was sent", what, cfgDesc)
				}
			case "Commit":
				nCommit++
			}
		}
		if nEdit > 1 {
			res.Violate("C18/more-than-one-edit-config", "%s [%s]: %s", what, cfgDesc, seq)
		}
		if nCommit > 1 {
			res.Violate("C18/more-than-one-commit", "%s [%s]: %s", what, cfgDesc, seq)
		}
		if commitDS == "running" && nCommit > 0 {
			res.Violate("C18/commit-on-running-target", "%s [%s]: %s", what, cfgDesc, seq)
		}
		failing := kind == "error" || kind == "eof"
		switch {
		case faultAt == 0 || kind == "warning":
			if err != nil {
				res.Violate("C18/failed-without-fault", "%s [%s]: %v (%s)", what, cfgDesc, err, seq)
				return
			}
			if nEdit == 1 && commitDS == "candidate" && nCommit != 1 {
				res.Violate("C18/edit-without-commit", "%s [%s]: %s", what, cfgDesc, seq)
			}
		case failing:
			if err == nil {
				res.Violate("C18/failure-swallowed", "%s [%s]: %s failed (%s) but Set returned success: %s", what, cfgDesc, calls[min(faultAt, len(calls))-1].Method, kind, seq)
			}
		}
		// when the answer is returned on a live connection the candidate must be clean, unless the Discard itself failed
		discardFailed := false
		for _, cl := range calls {
			if cl.Method == "Discard" && cl.Failed != "" {
				discardFailed = true
			}
		}
		if pend := drv.PendingDocs(); len(pend) > 0 && drv.IsAlive() && !discardFailed {
			key := "C18/uncommitted-leftovers-in-candidate"
			if len(calls) > 0 && calls[len(calls)-1].Method == "Commit" && calls[len(calls)-1].Failed != "" {
				key = "C18/failed-commit-not-discarded"
			}
			res.Violate(key, "%s [%s]: Set returned (err=%v) and the candidate still holds %d uncommitted document(s): %s", what, cfgDesc, err, len(pend), seq)
			drv.Discard() // clean up so that the rest of the history is judged on its own
		}
	}
	for s := 0; s < steps && len(res.Findings) == 0; s++ {
		step := run.genStep(2)
		res.Tracef("step %d: %s", s, stepString(step))
		// fault-free call sequence of this document: candidate = EditConfig, Commit ; running = EditConfig
		nCalls := 2
		if commitDS == "running" {
			nCalls = 1
		}
		type fp struct {
			at   int
			meth string
			kind string
		}
		plans := []fp{}
		for k := 1; k <= nCalls; k++ {
			plans = append(plans, fp{k, "", "error"})
		}
		if commitDS == "candidate" {
			plans = append(plans, fp{2, "Discard", "error"}) // the edit fails and the discard that must follow fails as well
			plans = append(plans, fp{2, "warn+", "error"})   // the edit is answered with a warning and the commit fails
		}
		if rng.Chance(1, 2) {
			plans = append(plans, fp{1, "", "warning"}) // does not fail the Set: takes the place of the fault-free run
		}
		for _, p := range plans {
			if len(res.Findings) > 0 {
				break
			}
			mark := drv.Mark()
			switch p.meth {
			case "Discard":
			case "warn+":
				drv.ArmPlan(map[int]string{1: "warning", 2: "error"})
			default:
				drv.Arm(p.at, "", p.kind)
			}
			if p.kind == "warning" {
				// a warning does not fail the Set: this is a full, successful run of the step
				out, ok := run.commit(step)
				calls := drv.Since(mark)
				drv.Arm(0, "", "")
				if !ok {
					res.Findings = res.Findings[:0]
					res.Violate("C18/warning-reply-failed-the-set", "step %d [%s]: a reply carrying only an rpc-error of severity warning failed the transaction (err=%v): %s", s, cfgDesc, out.err, describeCalls(calls))
					break
				}
				if len(calls) > 0 {
					faults++
					res.Count("fault:warning", 1)
					if len(out.rsp.GetWarnings()) == 0 {
						res.Violate("C18/warning-not-reported", "step %d [%s]: the warning of the device is not in the response", s, cfgDesc)
					}
				}
				judge(fmt.Sprintf("step %d with warning reply", s), calls, nil, p.at, "warning")
				// the step is applied now: generate the next one
				step = nil
				break
			}
			id := run.nextID() + "f"
			var out setOutcome
			if p.meth == "Discard" {
				fd := &doubleFault{drv: drv}
				fd.arm()
				out = run.set(id, step, nil, time.Minute, false)
				fd.disarm()
			} else {
				out = run.set(id, step, nil, time.Minute, false)
			}
			calls := drv.Since(mark)
			drv.Arm(0, "", "")
			run.canon = append(run.canon, fmt.Sprintf("FAULT(%d,%s%s) %s", p.at, p.meth, p.kind, stepString(step)))
			if out.convErr != nil || out.panicked {
				return
			}
			if len(calls) == 0 {
				// empty document: nothing was sent, the fault could not strike; the Set succeeded
				if out.err == nil {
					run.ds.TransactionCancel(run.ctx, id)
				}
				res.Count("fault_points_not_reached(empty document)", 1)
				continue
			}
			faults++
			res.Count("fault:"+p.meth+p.kind+fmt.Sprintf("@%d", p.at), 1)
			judge(fmt.Sprintf("step %d fault %s%s at call %d", s, p.meth, p.kind, p.at), calls, out.err, p.at, "error")
			if p.meth == "Discard" {
				// the server could not clean up (its Discard failed): the operator does, the rest of the history is judged on its own
				drv.Discard()
			}
			if out.err == nil {
				run.ds.TransactionCancel(run.ctx, id)
			}
		}
		if step == nil || len(res.Findings) > 0 {
			continue
		}
		mark := drv.Mark()
		committedBefore := len(drv.Committed)
		ffOut, ok := run.commit(step)
		calls := drv.Since(mark)
		if !ok {
			return
		}
		res.Count("fault_free_sets", 1)
		judge(fmt.Sprintf("step %d fault-free", s), calls, nil, 0, "")
		// exactly one edit-config if and only if the transaction changes something
		nChange := len(ffOut.rsp.GetUpdate()) + len(ffOut.rsp.GetDelete())
		nEditFF := 0
		for _, cl := range calls {
			if cl.Method == "EditConfig" {
				nEditFF++
			}
		}
		switch {
		case nChange > 0 && nEditFF == 0:
			res.Violate("C18/change-not-sent", "step %d [%s]: the transaction changes the device (%s) but no edit-config was sent and Set reported success", s, cfgDesc, fixture.PayloadKey(ffOut.rsp.GetUpdate(), ffOut.rsp.GetDelete()))
		case nChange == 0 && nEditFF > 0:
			res.Violate("C18/edit-sent-without-change", "step %d [%s]: the transaction changes nothing but an edit-config was sent: %s", s, cfgDesc, describeCalls(calls))
		}
		if nChange > 0 {
			res.Count("fault_free_sets_with_change", 1)
		} else {
			res.Count("fault_free_sets_without_change", 1)
		}
		if commitDS == "candidate" && len(drv.Committed) > committedBefore {
			last := drv.Committed[len(drv.Committed)-1]
			if len(last) != 1 {
				res.Violate("C18/leftovers-committed", "step %d [%s]: the commit made %d documents effective, only one belongs to this transaction", s, cfgDesc, len(last))
			}
		}
		// unchanged re-submission: nothing at all may be sent
		if rng.Chance(1, 2) && len(run.m.Live) > 0 {
			for _, o := range run.h.owners {
				if in := run.m.Live[o]; in != nil {
					mark := drv.Mark()
					rs := []stepIntent{{Owner: o, Prio: in.Prio, Vals: copyMap(in.Vals), Kind: "verbatim"}}
					if _, ok := run.commit(rs); !ok {
						return
					}
					res.Count("empty_documents", 1)
					if calls := drv.Since(mark); len(calls) > 0 {
						res.Violate("C18/driver-called-for-empty-change", "step %d [%s]: unchanged re-submission of %s caused %s", s, cfgDesc, o, describeCalls(calls))
					}
					break
				}
			}
		}
	}
	// dead connection: last act of the case
	if len(res.Findings) == 0 {
		step := run.genStep(1)
		for at := 1; at <= 2 && len(res.Findings) == 0; at++ {
			if commitDS == "running" && at == 2 {
				break
			}
			if !drv.IsAlive() {
				break
			}
			mark := drv.Mark()
			drv.Arm(at, "", "eof")
			id := run.nextID() + "eof"
			out := run.set(id, step, nil, time.Minute, false)
			calls := drv.Since(mark)
			drv.Arm(0, "", "")
			if len(calls) == 0 {
				if out.err == nil {
					run.ds.TransactionCancel(run.ctx, id)
				}
				continue
			}
			faults++
			res.Count(fmt.Sprintf("fault:eof@%d", at), 1)
			judge(fmt.Sprintf("eof at call %d", at), calls, out.err, at, "eof")
			// after a dead connection a further Set must fail without sending anything
			mark = drv.Mark()
			id2 := run.nextID() + "dead"
			out2 := run.set(id2, step, nil, time.Minute, false)
			for _, cl := range drv.Since(mark) {
				if cl.Method != "Close" {
					res.Violate("C18/sent-on-dead-connection", "[%s] %s sent after the connection died", cfgDesc, cl.Method)
				}
			}
			if out2.err == nil && len(calls) > 0 {
				res.Violate("C18/success-on-dead-connection", "[%s] a Set on a dead connection returned success", cfgDesc)
			}
			break
		}
	}
	res.Count("faults_injected", faults)
	res.Hash = core.HashOf(append([]string{cfgDesc}, run.canon...)...)
	res.NonTrivial = faults >= 3
	if idx < 2 {
		res.Sample = map[string]any{"config": cfgDesc, "history_with_faults": run.canon}
	}
}

// doubleFault makes the first EditConfig and the Discard that follows it fail.
type doubleFault struct{ drv *fixture.FakeDrv }

func (d *doubleFault) arm()    { d.drv.ArmDouble() }
func (d *doubleFault) disarm() { d.drv.Arm(0, "", "") }

// wireCase: the same property observed at the far end of the wire. The datastore gets the production NETCONF target
// (target.New: scrapligo driver wrapper, scrapligo, SSH) connected to a NETCONF device on loopback that records the rpcs
// it receives, keeps a candidate and answers according to a script: ok, rpc-error, rpc-error with the base namespace
// bound to a prefix, or a warning. What the scripted netconf.Driver of the other cases cannot see - how the wrapper reads
// the replies of a real device - is in the loop here.
func (c *c18) wireCase(w *core.Worker, idx int, rng *core.Rng, res *core.CaseResult) {
	commitDS := "candidate"
	if idx%12 == 11 {
		commitDS = "running"
	}
	dev, err := fixture.NewNCDevice()
	if err != nil {
		res.Inconclusive("C18/wire/no-device", "%v", err)
		return
	}
	defer dev.Close()
	sbi := &config.SBI{Type: "netconf", Address: "127.0.0.1", Port: dev.Port(), ConnectRetry: time.Second, Timeout: 3 * time.Second,
		Credentials:    &config.Creds{Username: "u", Password: "p"},
		NetconfOptions: &config.SBINetconfOptions{IncludeNS: idx%2 == 0, CommitDatastore: commitDS}}
	c.h.pool = poolFor(histPools[idx%4])
	var tgErr error
	c.h.mkTarget = func() target.Target {
		scb := schemaClient.NewSchemaClientBound(fixture.SchemaConfig().GetSchema(), c.h.env.Schema)
		tg, err := target.New(context.Background(), "c18w", sbi, scb)
		if err != nil {
			tgErr = err
		}
		return tg
	}
	run := c.h.start(rng, res, false, false)
	defer run.close()
	defer func() { c.h.mkTarget = nil }()
	if tgErr != nil {
		res.Inconclusive("C18/wire/connect", "%v", tgErr)
		return
	}
	cfgDesc := fmt.Sprintf("wire commit-datastore=%s include-ns=%v", commitDS, idx%2 == 0)
	res.Tracef("%s", cfgDesc)
	editOp := "edit-config:" + commitDS
	describe := func(rpcs []fixture.NCRpc) string {
		l := []string{}
		for _, r := range rpcs {
			l = append(l, r.Op+"="+r.Style)
		}
		return strings.Join(l, ", ")
	}
	faults := 0
	for s := 0; s < 4 && len(res.Findings) == 0; s++ {
		step := run.genStep(2)
		res.Tracef("step %d: %s", s, stepString(step))
		type plan struct{ op, style string }
		plans := []plan{{editOp, "error"}, {editOp, "error-prefixed"}, {editOp, "warning+error"}, {editOp, "error+warning"}}
		if commitDS == "candidate" {
			plans = append(plans, plan{"commit", "error"}, plan{"commit", "error-prefixed"}, plan{"commit", "warning+error"}, plan{"commit", "error+warning"})
		}
		for _, p := range plans {
			if len(res.Findings) > 0 {
				break
			}
			mark := dev.Mark()
			dev.Arm(p.op, p.style)
			id := run.nextID() + "f"
			out := run.set(id, step, nil, time.Minute, false)
			rpcs := dev.Since(mark)
			dev.ClearPlan()
			run.canon = append(run.canon, fmt.Sprintf("WIRE-FAULT(%s,%s) %s", p.op, p.style, stepString(step)))
			if out.convErr != nil || out.panicked {
				return
			}
			struck := false
			for _, r := range rpcs {
				if r.Op == p.op && r.Style == p.style {
					struck = true
				}
			}
			if !struck {
				// nothing to send (empty change): the fault could not strike
				if out.err == nil {
					run.ds.TransactionCancel(run.ctx, id)
				}
				continue
			}
			faults++
			res.Count("wire_fault:"+p.op+":"+p.style, 1)
			what := fmt.Sprintf("step %d, the device answers %s with %s [%s]", s, p.op, p.style, cfgDesc)
			if out.err == nil {
				res.Violate("C18/failure-swallowed", "%s: Set returned success; rpcs: %s", what, describe(rpcs))
				run.ds.TransactionCancel(run.ctx, id)
			}
			if pend := dev.PendingDocs(); len(pend) > 0 {
				key := "C18/uncommitted-leftovers-in-candidate"
				if p.op == "commit" {
					key = "C18/failed-commit-not-discarded"
				}
				res.Violate(key, "%s: Set returned (err=%v) and the candidate of the device still holds %d document(s); rpcs: %s", what, out.err, len(pend), describe(rpcs))
				dev.DiscardByOperator()
			}
		}
		if len(res.Findings) > 0 {
			break
		}
		mark := dev.Mark()
		warned := rng.Chance(1, 2)
		if warned {
			// the device accepts the edit and adds a warning: the transaction succeeds and reports it
			dev.Arm(editOp, "warning")
		}
		ffOut, ok := run.commit(step)
		dev.ClearPlan()
		if !ok {
			if warned {
				res.Findings = res.Findings[:0]
				res.Violate("C18/warning-reply-failed-the-set", "step %d [%s]: a reply carrying only an rpc-error of severity warning failed the transaction (err=%v): %s", s, cfgDesc, ffOut.err, describe(dev.Since(mark)))
			}
			return
		}
		rpcs := dev.Since(mark)
		if warned && len(rpcs) > 0 && len(ffOut.rsp.GetWarnings()) == 0 {
			res.Violate("C18/warning-not-reported", "step %d [%s]: the warning of the device is not in the response: %s", s, cfgDesc, describe(rpcs))
		}
		nEdit, nCommit := 0, 0
		for _, r := range rpcs {
			switch {
			case strings.HasPrefix(r.Op, "edit-config"):
				nEdit++
				if r.Op != editOp {
					res.Violate("C18/wrong-datastore", "step %d [%s]: %s", s, cfgDesc, r.Op)
				}
			case r.Op == "commit":
				nCommit++
			}
		}
		nChange := len(ffOut.rsp.GetUpdate()) + len(ffOut.rsp.GetDelete())
		res.Count("wire_fault_free_sets", 1)
		switch {
		case nChange > 0 && nEdit != 1:
			res.Violate("C18/change-not-sent", "step %d [%s]: the transaction changes the device (%s) and the device received %d edit-config: %s", s, cfgDesc, fixture.PayloadKey(ffOut.rsp.GetUpdate(), ffOut.rsp.GetDelete()), nEdit, describe(rpcs))
		case nChange == 0 && nEdit > 0:
			res.Violate("C18/edit-sent-without-change", "step %d [%s]: %s", s, cfgDesc, describe(rpcs))
		case commitDS == "candidate" && nEdit == 1 && nCommit != 1:
			res.Violate("C18/edit-without-commit", "step %d [%s]: %s", s, cfgDesc, describe(rpcs))
		case commitDS == "running" && nCommit > 0:
			res.Violate("C18/commit-on-running-target", "step %d [%s]: %s", s, cfgDesc, describe(rpcs))
		}
		if pend := dev.PendingDocs(); len(pend) > 0 {
			res.Violate("C18/uncommitted-leftovers-in-candidate", "step %d [%s] fault-free: the candidate still holds %d document(s): %s", s, cfgDesc, len(pend), describe(rpcs))
		}
	}
	res.Count("wire_faults", faults)
	res.Hash = core.HashOf(append([]string{cfgDesc}, run.canon...)...)
	res.NonTrivial = faults >= 2
}
