package checks

import (
	"context"
	"fmt"
	"sort"
	"strings"
	"time"

	"github.com/sdcio/cache/proto/cachepb"
	"github.com/sdcio/data-server/pkg/cache"
	dschema "github.com/sdcio/data-server/pkg/schema"
	"google.golang.org/protobuf/proto"

	"verifharness/internal/core"
	"verifharness/internal/fixture"
	"verifharness/internal/model"
)

// C07: a failed apply is all-or-nothing and a retry converges.
//
// Fault enumeration: for every transaction of a drawn history and every call the datastore makes to its three
// collaborators while it handles that TransactionSet (request conversion included), the call fails once - as a plain
// error, or as the death of the process at that call (all later effects are lost, the datastore object is discarded and
// re-opened over the same cache instance and device) - then the same request is repeated; the end state is compared with
// the fault-free run of the same history.

type c07 struct {
	h *hist
}

func init() { core.Register(&c07{}) }

func (c *c07) ID() string    { return "C07" }
func (c *c07) Level() string { return "fault_enumeration" }
func (c *c07) NumCases(tier string) int {
	if tier == "thorough" {
		return 240
	}
	return 24
}
func (c *c07) Rule() string {
	return "one case = one PRNG history of 3 (thorough: 4) transactions (1-3 intents, 4 owners, pools as C01 without presence containers, a fixed unmanaged running configuration) executed fault-free on a reference datastore, recording after every transaction the device configuration, the intended store and the running mirror, and the calls the datastore made to the cache client (method, store), the schema client and the target while it handled the TransactionSet. Then for EVERY such call site of EVERY transaction, in two modes - the call fails once (cache Modify / GetKeys and schema calls return an error, cache Read / ReadCh return an empty answer because the cache client interface has no error to return, the target rejects, or the target applies and the reply is lost), or the process dies at that call (every later collaborator call of that datastore object fails, the object is discarded and a new datastore is opened over the same cache instance and the same device) - a fresh datastore replays the prefix fault-free, executes the transaction with the fault, and repeats the same request (same transaction id) once the fault is gone. Judged: a rejecting device makes TransactionSet fail without persisting an intent or changing the running mirror; the repeated request succeeds; after it (or after the first call, if the fault went unnoticed and the call succeeded) the device configuration and the intended store equal those of the fault-free run. distinct = history; non-trivial = at least 20 call sites were enumerated and at least one faulty call failed and was repeated"
}
func (c *c07) Assumptions() []string {
	return []string{
		"process death is emulated inside one process: from the crash point on every collaborator call of the dying datastore object fails, the object is dropped, a new one is created over the same cache instance name and device; the cache process itself (badger) keeps running, so recovery of the cache's own files is not exercised",
		"a failing cache Read is an empty answer: cache.Client.Read/ReadCh have no error result and the real clients close the channel on errors",
		"the fault-free run and the faulty runs execute the same requests from the same state, so the n-th collaborator call is the same call",
	}
}

func (c *c07) Setup(w *core.Worker) error {
	fixture.Quiet()
	env, err := fixture.NewEnv(w.Scratch)
	if err != nil {
		return err
	}
	c.h = &hist{env: env, owners: []string{"oa", "ob", "oc", "od"}, noOrphan: true}
	return nil
}

type c07World struct {
	run *histRun
	fs  *fixture.FaultSchema
	dev *fixture.RecDev
}

var c07Running = map[string]string{
	"/sys/b-cont/x": "keep1", "/if[name=e9]/name": "e9", "/if[name=e9]/descr": "unmanaged", "/sys/descr": "a",
}

var c07Seq int

func (c *c07) open(res *core.CaseResult, name string, dev *fixture.RecDev) *c07World {
	fc := fixture.NewFaultCache(c.h.env.Cache)
	fs := fixture.NewFaultSchema(c.h.env.Schema)
	var sc dschema.Client = fs
	ds := c.h.env.NewDS(fixture.DSOpts{Cache: fc, Schema: sc, Name: name, Dev: dev})
	r := &histRun{h: c.h, ds: ds, fc: fc, m: model.NewIntents(), initRun: map[string]string{}, usedPrio: map[int32]string{}, res: res, ctx: context.Background()}
	return &c07World{run: r, fs: fs, dev: ds.Dev}
}

func (c *c07) fresh(res *core.CaseResult) *c07World {
	c07Seq++
	w := c.open(res, fmt.Sprintf("c07-%d", c07Seq), nil)
	var upds []*cache.Update
	for _, k := range sortedKeys(c07Running) {
		b, _ := proto.Marshal(model.MkTv(c07Running[k]))
		upds = append(upds, cache.NewUpdate(strings.Split(model.CachePath(model.Parse(k)), ","), b, 0, "", 0))
		w.dev.Config[k] = c07Running[k]
		w.run.initRun[k] = c07Running[k]
	}
	if err := c.h.env.Cache.Modify(context.Background(), w.run.ds.Name, &cache.Opts{Store: cachepb.Store_CONFIG}, nil, upds); err != nil {
		res.Inconclusive("C07/seed-running", "%v", err)
	}
	return w
}

type c07State struct {
	D, I, R map[string]string
}

func (c *c07) state(w *c07World) c07State {
	ctx := context.Background()
	d, _ := fixture.DumpIntended(ctx, c.h.env.Cache, w.run.ds.Name)
	im, _ := fixture.IntendedMap(d)
	r, _ := fixture.DumpStore(ctx, c.h.env.Cache, w.run.ds.Name, cachepb.Store_CONFIG)
	return c07State{D: w.dev.Snapshot(), I: im, R: r}
}

type c07Site struct {
	kind   string // device-rejects | device-reply-lost | cache | schema
	n      int    // 1-based index of the call among the calls of its collaborator during the TransactionSet
	label  string // cache/<Method>/<Store> | schema/<method> | device-...
	isRead bool
}

// commitPlain executes and confirms a step fault-free.
func c07Commit(w *c07World, id string, step []stepIntent) (setOutcome, bool) {
	out := w.run.set(id, step, nil, time.Minute, false)
	if out.panicked || out.convErr != nil || out.err != nil || out.rejected {
		return out, false
	}
	if err := w.run.ds.TransactionConfirm(w.run.ctx, id); err != nil {
		return out, false
	}
	return out, true
}

func (c *c07) RunCase(w *core.Worker, idx int, seed uint64, res *core.CaseResult) {
	rng := core.NewRng(seed)
	c.h.pool = poolFor([]string{"base", "base+mk", "base+extra", "base+mk+extra"}[idx%4])
	nSteps := 3
	if w.Tier == "thorough" {
		nSteps = 4
	}
	// ---- fault-free reference run; it also draws the history
	ref := c.fresh(res)
	ref.run.rng = rng
	var steps [][]stepIntent
	var refStates []c07State
	var sites [][]c07Site
	for s := 0; s < nSteps; s++ {
		step := ref.run.genStep(3)
		ref.run.fc.Reset()
		ref.fs.Reset()
		nSetBefore := ref.dev.NumSets()
		out, ok := c07Commit(ref, fmt.Sprintf("t%d", s), step)
		if !ok {
			res.Inconclusive("C07/reference-run-failed", "step %d [%s]: %+v", s, stepString(step), out)
			ref.run.close()
			return
		}
		ref.run.m = applyToModel(ref.run.m, step)
		steps = append(steps, step)
		res.Tracef("step %d: %s", s, stepString(step))
		refStates = append(refStates, c.state(ref))
		var st []c07Site
		if ref.dev.NumSets() > nSetBefore {
			st = append(st, c07Site{kind: "device-rejects", n: 1, label: "device-rejects"}, c07Site{kind: "device-reply-lost", n: 1, label: "device-reply-lost"})
		}
		for i, cc := range ref.run.fc.Snapshot() {
			st = append(st, c07Site{kind: "cache", n: i + 1, label: fmt.Sprintf("cache/%s/%s", cc.Method, cc.Store), isRead: cc.Method == "Read" || cc.Method == "ReadCh"})
		}
		for i := 0; i < ref.fs.Count(); i++ {
			st = append(st, c07Site{kind: "schema", n: i + 1, label: "schema"})
		}
		sites = append(sites, st)
	}
	ref.run.close()

	// ---- enumeration
	retried := 0
	total := 0
	for s := 0; s < nSteps; s++ {
		for _, site := range sites[s] {
			for _, restart := range []bool{false, true} {
				total++
				c.oneFault(res, steps, s, site, restart, refStates, &retried)
				// stop a case that keeps failing (every failing repeat costs its full deadline); the class that is
				// recorded as known finding does not count
				bad := 0
				for _, f := range res.Findings {
					if !strings.HasPrefix(f.Key, "C07/cache-read-failure-is-invisible/") {
						bad++
					}
				}
				if bad > 6 {
					goto done
				}
			}
		}
	}
done:
	// ---- a transaction that consists of a replace intent, rejected by the device once
	{
		bad := 0
		for _, f := range res.Findings {
			if !strings.HasPrefix(f.Key, "C07/cache-read-failure-is-invisible/") {
				bad++
			}
		}
		if bad == 0 && len(steps) > 0 {
			c.replaceProbe(res, rng, steps[0])
		}
	}
	res.Count("fault_runs", total)
	res.Count("faulty_calls_failed_and_repeated", retried)
	res.Hash = core.HashOf(func() []string {
		var l []string
		for _, st := range steps {
			l = append(l, stepString(st))
		}
		return l
	}()...)
	res.NonTrivial = total >= 40 && retried > 0
	if idx < 2 {
		lab := map[string]int{}
		for _, st := range sites {
			for _, x := range st {
				lab[x.label]++
			}
		}
		res.Sample = map[string]any{"sites_per_label": lab, "fault_runs": total}
	}
}

func diffKeys(a, b map[string]string) string {
	d := fixture.MapDiff(a, b)
	if len(d) > 700 {
		d = d[:700] + "..."
	}
	return d
}

func (c *c07) oneFault(res *core.CaseResult, steps [][]stepIntent, s int, site c07Site, restart bool, refStates []c07State, retried *int) {
	nFindings := len(res.Findings)
	w := c.fresh(res)
	closeW := func() { w.run.close() }
	defer func() { closeW() }()
	for p := 0; p < s; p++ {
		if _, ok := c07Commit(w, fmt.Sprintf("t%d", p), steps[p]); !ok {
			res.Inconclusive("C07/prefix-replay-failed", "step %d of the prefix failed on the replay datastore", p)
			return
		}
	}
	before := c.state(w)
	mode := "error"
	if restart {
		mode = "restart"
	}
	res.Count("sites:"+site.label+":"+mode, 1)
	where := fmt.Sprintf("transaction %d [%s], fault at %s call #%d, mode %s", s, stepString(steps[s]), site.label, site.n, mode)

	// ---- arm
	fired, dead := false, false
	w.run.fc.Reset()
	w.fs.Reset()
	die := func() {
		if restart {
			dead = true
			// a dead process does not talk to the device any more either
			w.dev.FailNext = 1 << 30
		}
	}
	w.run.fc.Before = func(cc fixture.CacheCall) error {
		if dead {
			return fixture.ErrInjected
		}
		if site.kind == "cache" && cc.N == site.n && !fired {
			fired = true
			die()
			return fixture.ErrInjected
		}
		return nil
	}
	w.fs.Before = func(n int, method string) error {
		if dead {
			return fixture.ErrInjected
		}
		if site.kind == "schema" && n == site.n && !fired {
			fired = true
			die()
			return fixture.ErrInjected
		}
		return nil
	}
	switch site.kind {
	case "device-rejects":
		w.dev.FailNext = 1
		if restart {
			w.dev.SetHook = func(int) { fired = true; dead = true; w.dev.FailNext = 1 << 30 }
		} else {
			w.dev.SetHook = func(int) { fired = true }
		}
	case "device-reply-lost":
		w.dev.PostHook = func(int) error {
			if fired {
				return nil
			}
			fired = true
			die()
			return fixture.ErrInjected
		}
	}
	id := fmt.Sprintf("t%d", s)
	out := w.run.set(id, steps[s], nil, time.Minute, false)
	// ---- disarm
	w.run.fc.Before, w.fs.Before, w.dev.SetHook, w.dev.PostHook, w.dev.FailNext = nil, nil, nil, nil, 0
	if out.panicked {
		return
	}
	if !fired {
		res.Inconclusive("C07/site-not-reached", "%s: the call was not made in the replay", where)
		return
	}
	failed := out.convErr != nil || out.err != nil || out.rejected
	after := c.state(w)
	if site.kind == "device-rejects" {
		if !failed {
			res.Violate("C07/device-rejects-but-set-succeeds/"+mode, "%s", where)
		}
		if d := fixture.MapDiff(before.I, after.I); d != "" {
			res.Violate("C07/device-rejected/intent-persisted/"+mode, "%s\n  intended store changed: %s", where, diffKeys(before.I, after.I))
		}
		if d := fixture.MapDiff(before.R, after.R); d != "" {
			res.Violate("C07/device-rejected/running-mirror-changed/"+mode, "%s\n  running mirror changed: %s", where, diffKeys(before.R, after.R))
		}
	}
	if restart {
		// the process is gone: drop the object, open a new datastore over the same cache instance and device
		name, dev := w.run.ds.Name, w.dev
		w.run.ds.Abandon()
		w2 := c.open(res, name, dev)
		closeW = func() { w2.run.close() }
		w = w2
	}
	errText := ""
	if failed || restart {
		if failed {
			*retried++
			errText = fmt.Sprintf("first call: convErr=%v err=%v rejected=%v", out.convErr, out.err, out.rejected)
		} else {
			errText = "first call succeeded, then the process died"
		}
		// the same request again, the fault is gone
		done := make(chan setOutcome, 1)
		w.run.setTimeout = 6 * time.Second // a datastore that is free answers in milliseconds
		go func() { done <- w.run.set(id, steps[s], nil, time.Minute, false) }()
		var out2 setOutcome
		select {
		case out2 = <-done:
		case <-time.After(30 * time.Second):
			res.Violate("C07/repeated-request-blocks/"+site.label+"/"+mode, "%s\n  %s\n  the repeated request did not return within 30 s (datastore still locked?)", where, errText)
			return
		}
		if out2.panicked {
			return
		}
		if out2.convErr != nil || out2.err != nil || out2.rejected {
			res.Violate("C07/repeated-request-fails/"+site.label+"/"+mode, "%s\n  %s\n  repeated request: convErr=%v err=%v rejected=%v", where, errText, out2.convErr, out2.err, out2.rejected)
			return
		}
	}
	if err := w.run.ds.TransactionConfirm(w.run.ctx, id); err != nil {
		res.Violate("C07/confirm-fails/"+site.label+"/"+mode, "%s\n  %s\n  confirm: %v", where, errText, err)
		return
	}
	end := c.state(w)
	want := refStates[s]
	what := "after-retry"
	if !failed && !restart {
		what = "fault-unnoticed"
		res.Count("faults_unnoticed", 1)
	}
	keyOf := func(store string) string {
		if what == "fault-unnoticed" && site.isRead {
			// one class: the cache client interface gives a failed Read no way to be noticed
			return "C07/cache-read-failure-is-invisible/" + store + "-diverges"
		}
		return "C07/diverged/" + what + "/" + store + "/" + site.label + "/" + mode
	}
	if d := fixture.MapDiff(want.D, end.D); d != "" {
		res.Violate(keyOf("device"), "%s\n  %s\n  device differs from the fault-free run (fault-free vs. this run): %s", where, errText, diffKeys(want.D, end.D))
	}
	if d := fixture.MapDiff(want.I, end.I); d != "" {
		res.Violate(keyOf("intended"), "%s\n  %s\n  intended store differs from the fault-free run (fault-free vs. this run): %s", where, errText, diffKeys(want.I, end.I))
	}
	if d := fixture.MapDiff(want.R, end.R); d != "" {
		res.Count("running_mirror_differs_after_recovery", 1)
	}
	// the next transaction of the history, fault-free: whatever the recovery left behind (e.g. a stale running mirror)
	// must not make it end differently from the fault-free run
	if s+1 < len(steps) && len(res.Findings) == nFindings {
		next := stepString(steps[s+1])
		if _, ok := c07Commit(w, fmt.Sprintf("t%d", s+1), steps[s+1]); !ok {
			res.Violate("C07/next-transaction-fails/"+site.label+"/"+mode, "%s\n  %s\n  the next transaction of the history [%s] fails after the recovery", where, errText, next)
			return
		}
		nxt := c.state(w)
		if d := fixture.MapDiff(refStates[s+1].D, nxt.D); d != "" {
			res.Violate("C07/diverged/next-transaction/device/"+site.label+"/"+mode, "%s\n  %s\n  after the next transaction [%s] the device differs from the fault-free run: %s", where, errText, next, diffKeys(refStates[s+1].D, nxt.D))
		}
		if d := fixture.MapDiff(refStates[s+1].I, nxt.I); d != "" {
			res.Violate("C07/diverged/next-transaction/intended/"+site.label+"/"+mode, "%s\n  %s\n  after the next transaction [%s] the intended store differs from the fault-free run: %s", where, errText, next, diffKeys(refStates[s+1].I, nxt.I))
		}
		res.Count("follow_up_transactions_checked", 1)
	}
}

var _ = sort.Strings

// replaceProbe: the device rejects the Set of a transaction that carries only a replace intent. The error must surface,
// nothing may be persisted, the running mirror stays as it was, the datastore is unlocked, and the repeated request succeeds.
func (c *c07) replaceProbe(res *core.CaseResult, rng *core.Rng, first []stepIntent) {
	w := c.fresh(res)
	defer w.run.close()
	w.run.rng = rng
	if _, ok := c07Commit(w, "t0", first); !ok {
		return
	}
	vals := map[string]string{}
	for j := 0; j < 2+rng.Intn(3); j++ {
		l := c.h.pool[rng.Intn(len(c.h.pool))]
		vals[l.XPath] = l.Vals[rng.Intn(len(l.Vals))]
	}
	repl := stepIntent{Owner: "repl", Prio: 2, Vals: vals, Kind: "replace-intent"}
	where := fmt.Sprintf("after [%s]: transaction with the replace intent %s, the device rejects the Set", stepString(first), model.SortedMap(vals))
	before := c.state(w)
	w.dev.FailNext = 1
	out := w.run.set("rp", nil, &repl, time.Minute, false)
	w.dev.FailNext = 0
	res.Count("replace_intent_fault_runs", 1)
	if out.panicked {
		return
	}
	if out.convErr == nil && out.err == nil && !out.rejected {
		res.Violate("C07/device-rejects-but-set-succeeds/replace-intent", "%s: TransactionSet returned success", where)
	}
	after := c.state(w)
	if d := fixture.MapDiff(before.I, after.I); d != "" {
		res.Violate("C07/persisted-although-device-rejected/replace-intent", "%s: intended store changed: %s", where, d)
	}
	if d := fixture.MapDiff(before.R, after.R); d != "" {
		res.Violate("C07/running-changed-although-device-rejected/replace-intent", "%s: running store changed: %s", where, d)
	}
	if id, _ := w.run.ds.VerifOpenTransaction(); id != "" {
		res.Violate("C07/left-locked/replace-intent", "%s: transaction %q is still registered", where, id)
		w.run.ds.TransactionCancel(w.run.ctx, id)
	}
	for _, f := range res.Findings {
		if strings.HasSuffix(f.Key, "/replace-intent") {
			return
		}
	}
	out2 := w.run.set("rp2", nil, &repl, time.Minute, false)
	if out2.convErr != nil || out2.err != nil || out2.rejected {
		res.Violate("C07/repeat-fails/replace-intent", "%s: the repeated request fails: conv=%v err=%v rejected=%v", where, out2.convErr, out2.err, out2.rejected)
		return
	}
	w.run.ds.TransactionConfirm(w.run.ctx, "rp2")
}
