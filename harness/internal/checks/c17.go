package checks

import (
	"context"
	"fmt"
	"regexp"
	"runtime"
	"sort"
	"strconv"
	"strings"
	"sync/atomic"
	"time"

	"github.com/sdcio/cache/proto/cachepb"
	"github.com/sdcio/data-server/pkg/cache"
	"github.com/sdcio/data-server/pkg/config"
	schemaClient "github.com/sdcio/data-server/pkg/datastore/clients/schema"
	"github.com/sdcio/data-server/pkg/tree"
	"github.com/sdcio/data-server/pkg/verifhook"
	sdcpb "github.com/sdcio/sdc-protos/sdcpb"
	"google.golang.org/protobuf/proto"

	"verifharness/internal/core"
	"verifharness/internal/fixture"
	"verifharness/internal/model"
)

// C17: validation verdicts do not depend on scheduling; concurrent validation is free of data races.
//
// The vcheck binary of this property is built with -race (see ./run). One case = one wide transaction over a drawn
// state, validated (dry-run TransactionSet through the real datastore) several times with the concurrent validator at
// several GOMAXPROCS settings and with DisableConcurrency; the monitor compares the complete sets of errors and
// warnings, the race detector watches every run; its reports are collected from the workers' logs by the parent.

type c17 struct {
	h *hist
}

func init() { core.Register(&c17{}) }

func (c *c17) ID() string      { return "C17" }
func (c *c17) Level() string   { return "exploration" }
func (c *c17) WantsRace() bool { return true }
func (c *c17) NumCases(tier string) int {
	if tier == "thorough" {
		return 1600
	}
	return 96
}
func (c *c17) Rule() string {
	return "one case = a drawn state (5-40 interfaces in the running configuration only, a committed base intent with peers, leaf-list references and must operands) and one wide transaction of 1-3 intents (peers whose leafrefs point into the running-only interfaces, into the base intent, into the transaction itself or nowhere; leaf-lists of leafrefs; a relative leafref into /sys whose target exists only in running; must statements whose operands live in sibling leaves of other owners or only in running; range / length / pattern / min-max / mandatory violations; leaves with defaults) that is validated by dry-run TransactionSet 6 times with concurrent validators at GOMAXPROCS 16, 4, 2, 1, 16, 3 and twice with DisableConcurrency; all eight verdicts (per intent: sorted errors and warnings, addresses stripped) must be equal. The harness binary is built with the race detector; every report whose stack touches data-server code is a violation. distinct = state + transaction; non-trivial = the verdict holds at least one error and at least 16 goroutines more than before the call were alive at some entry into a validator (sampled at the tree.validate.enter hook); entries created in the tree while validators run are counted at the tree.addupdate.childMissing hook (the tree the datastore builds preloads defaults and the running store; what validators still insert there are non-presence containers nobody configured, entered by the must chk3 of list unit on its way to /sys/log/level). The same transaction is also validated on trees built with the tree package: as the datastore builds them (1 sequential + 3 concurrent), with key indexes that can only be loaded once validation has started, and without the running store, so that the validators of many list entries fetch the same running value on demand at the same time (leafref chk4 and must chk5 of list unit point to the top-level leaf /ifx; on_demand_loads_during_tree_validation counts the entries created while validators run); in each kind the concurrent verdicts must equal the sequential one"
}
func (c *c17) Assumptions() []string {
	return []string{
		"the race detector only sees the interleavings the Go scheduler produced in these runs; a clean run is no proof of race freedom",
		"equality of verdicts is judged on the rendered error / warning strings with hexadecimal addresses removed",
	}
}

func (c *c17) Setup(w *core.Worker) error {
	fixture.Quiet()
	env, err := fixture.NewEnv(w.Scratch)
	if err != nil {
		return err
	}
	c.h = &hist{env: env, owners: []string{"base", "pa", "pb", "pc"}}
	tvOverride = c04Tv
	return nil
}

var c17Addr = regexp.MustCompile(`0x[0-9a-f]+|0xc[0-9a-f]+`)

func c17Verdict(out setOutcome) string {
	switch {
	case out.panicked:
		return "PANIC"
	case out.convErr != nil:
		return "CONV " + out.convErr.Error()
	case out.err != nil:
		return "ERR " + out.err.Error()
	}
	var l []string
	for name, ir := range out.rsp.GetIntents() {
		for _, e := range ir.GetErrors() {
			l = append(l, "E "+name+": "+e)
		}
		for _, e := range ir.GetWarnings() {
			l = append(l, "W "+name+": "+e)
		}
	}
	for _, wn := range out.rsp.GetWarnings() {
		l = append(l, "W : "+wn)
	}
	sort.Strings(l)
	return c17Addr.ReplaceAllString(strings.Join(l, "\n"), "ADDR")
}

func (c *c17) RunCase(w *core.Worker, idx int, seed uint64, res *core.CaseResult) {
	rng := core.NewRng(seed)
	val := &config.Validation{}
	c.h.validation = val
	run := c.h.start(rng, res, false, false)
	defer run.close()

	// ---- state: running-only interfaces and operands
	nIf := 5 + rng.Intn(36)
	running := map[string]string{}
	for i := 0; i < nIf; i++ {
		n := "r" + strconv.Itoa(i)
		running["/if[name="+n+"]/name"] = n
		running["/if[name="+n+"]/descr"] = "d"
	}
	if rng.Chance(2, 3) {
		running["/sys/name"] = "r1"
	}
	if rng.Chance(1, 2) {
		running["/cons/mst/a"] = "on"
	}
	if rng.Chance(1, 2) {
		running["/cons/mst/e"] = "true"
	}
	if rng.Chance(3, 4) {
		running["/ifx"] = "x1"
	}
	var upds []*cache.Update
	for _, k := range sortedKeys(running) {
		var tv *sdcpb.TypedValue = model.MkTv(running[k])
		if k == "/cons/mst/e" {
			tv = &sdcpb.TypedValue{Value: &sdcpb.TypedValue_BoolVal{BoolVal: true}}
		}
		b, _ := proto.Marshal(tv)
		upds = append(upds, cache.NewUpdate(strings.Split(model.CachePath(model.Parse(k)), ","), b, 0, "", 0))
		run.ds.Dev.Config[k] = running[k]
	}
	if err := run.fc.Modify(run.ctx, run.ds.Name, &cache.Opts{Store: cachepb.Store_CONFIG}, nil, upds); err != nil {
		res.Inconclusive("C17/seed-running", "%v", err)
		return
	}
	// ---- base intent (valid, committed)
	base := map[string]string{}
	nBase := 2 + rng.Intn(6)
	for i := 0; i < nBase; i++ {
		n := "b" + strconv.Itoa(i)
		base["/if[name="+n+"]/descr"] = "base"
		if rng.Chance(1, 2) {
			base["/peer[name=pb"+strconv.Itoa(i)+"][zone=z1]/via"] = n
		}
	}
	base["/cons/lrefs"] = "LL:b0,b1"
	// list entries whose mandatory leaf only the base intent holds: the transaction adds to those entries, the mandatory
	// check is answered from the index of the intended store (many such checks run side by side)
	nM := 0
	if rng.Chance(1, 2) {
		nM = 4 + rng.Intn(12)
		for i := 0; i < nM; i++ {
			base["/cons/mlist[k=bm"+strconv.Itoa(i)+"]/req"] = "r"
		}
	}
	if _, ok := run.commit([]stepIntent{{Owner: "base", Prio: 50, Vals: base, Kind: "create"}}); !ok {
		return
	}
	if nM > 0 {
		// ... and the device has not reported them (yet): they are in the intended store only
		if err := run.fc.Modify(run.ctx, run.ds.Name, &cache.Opts{Store: cachepb.Store_CONFIG}, [][]string{{"cons", "mlist"}}, nil); err != nil {
			res.Inconclusive("C17/seed-running", "%v", err)
			return
		}
	}
	// ---- the wide transaction
	nInt := 1 + rng.Intn(3)
	var step []stepIntent
	for i := 0; i < nInt; i++ {
		owner := []string{"pa", "pb", "pc"}[i]
		vals := map[string]string{}
		nPeers := 3 + rng.Intn(25)
		for p := 0; p < nPeers; p++ {
			var target string
			switch rng.Intn(6) {
			case 0, 1, 2:
				target = "r" + strconv.Itoa(rng.Intn(nIf)) // running only: loaded while validating
			case 3:
				target = "b" + strconv.Itoa(rng.Intn(nBase))
			case 4:
				target = "t" + strconv.Itoa(rng.Intn(4))
				vals["/if[name="+target+"]/descr"] = "tx"
			default:
				target = "nowhere" + strconv.Itoa(rng.Intn(3))
			}
			zone := rng.Intn(2)
			vals[fmt.Sprintf("/peer[name=%s%d][zone=z%d]/via", owner, p, zone)] = target
			if rng.Chance(1, 3) {
				// leafref whose key predicate is resolved through the sibling leaf via
				vals[fmt.Sprintf("/peer[name=%s%d][zone=z%d]/via-unit", owner, p, zone)] = strconv.Itoa(100 + rng.Intn(3))
			}
			if rng.Chance(1, 3) {
				vals[fmt.Sprintf("/peer[name=%s%d][zone=z0]/as", owner, p)] = strconv.Itoa(rng.Intn(100))
			}
		}
		if rng.Chance(2, 3) {
			n := 1 + rng.Intn(3)
			el := []string{}
			for e := 0; e < n; e++ {
				el = append(el, []string{"r0", "r1", "b0", "nowhere"}[rng.Intn(4)])
			}
			vals["/cons/lrefs"] = "LL:" + strings.Join(el, ",")
		}
		if rng.Chance(1, 2) {
			vals["/cons/lref"] = []string{"r0", "b0", "r999"}[rng.Intn(3)]
		}
		if rng.Chance(1, 2) {
			vals["/cons/lref-opt"] = []string{"r0", "nope"}[rng.Intn(2)]
		}
		if rng.Chance(1, 2) {
			vals["/cons/lref-rel"] = []string{"r1", "r2"}[rng.Intn(2)]
		}
		if rng.Chance(1, 2) {
			vals["/cons/mst/b"] = "x"
		}
		if rng.Chance(1, 2) {
			vals["/cons/mst/f"] = "y"
		}
		if rng.Chance(1, 4) {
			vals["/cons/mst/a"] = []string{"on", "off"}[rng.Intn(2)]
		}
		for u := 0; u < rng.Intn(8); u++ {
			vals[fmt.Sprintf("/if[name=t%d]/unit[id=%d]/vlan", rng.Intn(4), u)] = []string{"10", "4094", "0", "4095"}[rng.Intn(4)]
		}
		// many units of few interfaces whose must needs the interface's 'enabled', which exists only as a default:
		// sibling validators load the same default into the same entry at the same time
		nChk := rng.Intn(30)
		for u := 0; u < nChk; u++ {
			ifn := []string{"t0", "t1", "r0", "r1", "b0"}[rng.Intn(5)]
			vals[fmt.Sprintf("/if[name=%s]/unit[id=%d]/chk", ifn, 100+u)] = "c"
		}
		// ... and a must over a leaf nobody sets: its schema is first asked for by the validators, concurrently
		nChk2 := rng.Intn(30)
		for u := 0; u < nChk2; u++ {
			ifn := []string{"t0", "t1", "r0", "r1", "b0"}[rng.Intn(5)]
			vals[fmt.Sprintf("/if[name=%s]/unit[id=%d]/chk2", ifn, 200+u)] = "c"
		}
		// ... and a must over a default in another branch (/sys/log/level): the container is not in the tree, the first
		// validator that gets there inserts it while the others are on their way to it
		nChk3 := rng.Intn(30)
		for u := 0; u < nChk3; u++ {
			ifn := []string{"t0", "t1", "r0", "r1", "b0"}[rng.Intn(5)]
			vals[fmt.Sprintf("/if[name=%s]/unit[id=%d]/chk3", ifn, 300+u)] = "c"
		}
		// ... and a leafref and a must to a leaf at the top of the tree that only the running store holds (where the tree
		// is built without the running store the validators fetch it, several at once)
		nChk4 := rng.Intn(30)
		for u := 0; u < nChk4; u++ {
			ifn := []string{"t0", "t1", "r0", "r1", "b0"}[rng.Intn(5)]
			if rng.Chance(1, 2) {
				vals[fmt.Sprintf("/if[name=%s]/unit[id=%d]/chk4", ifn, 400+u)] = []string{"x1", "x1", "x1", "x2"}[rng.Intn(4)]
			} else {
				vals[fmt.Sprintf("/if[name=%s]/unit[id=%d]/chk5", ifn, 400+u)] = "c"
			}
		}
		if rng.Chance(1, 4) {
			vals["/if[name=t0]/enabled"] = "false"
		}
		if rng.Chance(1, 2) {
			vals["/cons/mst/h"] = "hv"
		}
		if rng.Chance(1, 3) {
			vals["/sys/name"] = []string{"r1", "abcdefghijklmnopq"}[rng.Intn(2)]
		}
		if rng.Chance(1, 3) {
			vals["/cons/pat"] = []string{"abc", "abd"}[rng.Intn(2)]
		}
		if rng.Chance(1, 3) {
			vals["/cons/mm"] = []string{"LL:1", "LL:1,2,3,4"}[rng.Intn(2)]
		}
		if rng.Chance(1, 3) {
			vals["/cons/mlist[k="+owner+"]/opt"] = "o"
			if rng.Chance(1, 2) {
				vals["/cons/mlist[k="+owner+"]/req"] = "r"
			}
		}
		if rng.Chance(1, 3) {
			vals["/cons/rng-s"] = []string{"-5", "0"}[rng.Intn(2)]
		}
		if i == 0 {
			for m := 0; m < nM; m++ {
				if m == 0 || rng.Chance(3, 4) {
					vals["/cons/mlist[k=bm"+strconv.Itoa(m)+"]/opt"] = "o"
				}
			}
		}
		step = append(step, stepIntent{Owner: owner, Prio: int32(10 + 10*i), Vals: vals, Kind: "create"})
	}
	if rng.Chance(1, 3) {
		// the base intent shrinks in the same transaction: targets flagged for deletion while others are validated against them
		nb := copyMap(base)
		for _, k := range sortedKeys(nb) {
			if rng.Chance(1, 2) {
				delete(nb, k)
			}
		}
		if len(nb) == 0 {
			nb["/if[name=b0]/descr"] = "base"
		}
		step = append(step, stepIntent{Owner: "base", Prio: 50, Vals: nb, Kind: "shrink"})
	}
	res.Tracef("running: %d interfaces, operands %s", nIf, model.SortedMap(map[string]string{"name": running["/sys/name"], "a": running["/cons/mst/a"], "e": running["/cons/mst/e"]}))
	res.Tracef("transaction: %s", stepString(step))

	// ---- observe lazy loads while validators run
	var validating atomic.Bool
	var lazyLoads, validateCalls, peakGoroutines atomic.Int64
	verifhook.Set(func(name string) {
		switch name {
		case "tree.validate.enter":
			validateCalls.Add(1)
			validating.Store(true)
			if n := int64(runtime.NumGoroutine()); n > peakGoroutines.Load() {
				peakGoroutines.Store(n)
			}
		case "tree.addupdate.childMissing":
			if validating.Load() {
				lazyLoads.Add(1)
			}
		}
	})
	defer verifhook.Set(nil)

	idle := int64(runtime.NumGoroutine())
	procs := []int{16, 4, 2, 1, 16, 3}
	var verdicts []string
	var labels []string
	prev := runtime.GOMAXPROCS(0)
	defer runtime.GOMAXPROCS(prev)
	for i, p := range procs {
		runtime.GOMAXPROCS(p)
		val.DisableConcurrency = false
		validating.Store(false)
		out := run.set(fmt.Sprintf("c%d", i), step, nil, time.Minute, true)
		validating.Store(false)
		verdicts = append(verdicts, c17Verdict(out))
		labels = append(labels, fmt.Sprintf("concurrent GOMAXPROCS=%d", p))
	}
	lazy := lazyLoads.Load()
	peak := peakGoroutines.Load() - idle
	runtime.GOMAXPROCS(prev)
	for i := 0; i < 2; i++ {
		val.DisableConcurrency = true
		validating.Store(false)
		out := run.set(fmt.Sprintf("s%d", i), step, nil, time.Minute, true)
		validating.Store(false)
		verdicts = append(verdicts, c17Verdict(out))
		labels = append(labels, "sequential")
	}
	val.DisableConcurrency = false
	// ---- the same transaction on trees built directly with the tree package (the steps of lowlevelTransactionSet, minus
	// its debug rendering of the whole tree, which happens to decode every value before the validators start): sequential
	// reference first, then concurrent runs on fresh trees
	var treeRef string
	for i := 0; i < 4 && len(res.Findings) == 0; i++ {
		runtime.GOMAXPROCS([]int{prev, 16, 4, 2}[i])
		v, err := c.treeValidate(run, step, i == 0, false, false)
		if err != nil {
			res.Inconclusive("C17/tree-mode", "%v", err)
			break
		}
		res.Count("tree_validations", 1)
		if i == 0 {
			treeRef = v
			continue
		}
		if v != treeRef {
			res.Violate("C17/verdict-differs/tree-concurrent-vs-sequential", "tree built with the tree package, concurrent run %d differs from the sequential reference\n--- concurrent\n%s\n--- sequential\n%s\n  transaction: %s", i, v, treeRef, stepString(step))
		}
	}
	// ---- the same with a store that could not list its keys until validation starts (every GetKeys before fails: the
	// key indexes are loaded lazily, by whichever validator asks first, while the others are running)
	var lazyRef string
	for i := 0; i < 4 && len(res.Findings) == 0; i++ {
		runtime.GOMAXPROCS([]int{prev, 16, 4, 2}[i])
		v, err := c.treeValidate(run, step, i == 0, true, false)
		if err != nil {
			res.Inconclusive("C17/tree-mode", "lazy index: %v", err)
			break
		}
		res.Count("tree_validations_with_lazily_loaded_index", 1)
		if i == 0 {
			lazyRef = v
			continue
		}
		if v != lazyRef {
			res.Violate("C17/verdict-differs/tree-concurrent-vs-sequential/lazy-index", "tree built with the tree package, key indexes loaded during validation, concurrent run %d differs from the sequential reference\n--- concurrent\n%s\n--- sequential\n%s\n  transaction: %s", i, v, lazyRef, stepString(step))
		}
	}
	// ---- the same on trees that do not hold the running store: validators load the running values they need on demand
	// (leafref targets, must operands), several of them the same value at the same time
	var odRef string
	lazyBefore := lazyLoads.Load()
	for i := 0; i < 4 && len(res.Findings) == 0; i++ {
		runtime.GOMAXPROCS([]int{prev, 16, 4, 2}[i])
		validating.Store(false)
		v, err := c.treeValidate(run, step, i == 0, false, true)
		validating.Store(false)
		if err != nil {
			res.Inconclusive("C17/tree-mode", "running on demand: %v", err)
			break
		}
		res.Count("tree_validations_with_running_loaded_on_demand", 1)
		if i == 0 {
			odRef = v
			continue
		}
		if v != odRef {
			res.Violate("C17/verdict-differs/tree-concurrent-vs-sequential/running-on-demand", "tree built with the tree package, running values loaded by the validators, concurrent run %d differs from the sequential reference\n--- concurrent\n%s\n--- sequential\n%s\n  transaction: %s", i, v, odRef, stepString(step))
		}
	}
	res.Count("on_demand_loads_during_tree_validation", int(lazyLoads.Load()-lazyBefore))
	runtime.GOMAXPROCS(prev)
	res.Count("validations", len(verdicts))
	res.Count("validate_calls", int(validateCalls.Load()))
	res.Count("lazy_loads_during_validation", int(lazy))
	ref := verdicts[len(verdicts)-1]
	for i, v := range verdicts {
		if strings.HasPrefix(v, "PANIC") {
			return // reported as api-panic
		}
		if v != ref {
			kind := "concurrent-vs-sequential"
			if labels[i] == "sequential" {
				kind = "sequential-runs-differ"
			}
			res.Violate("C17/verdict-differs/"+kind, "run %d (%s) differs from the sequential reference\n--- %s\n%s\n--- sequential\n%s\n  transaction: %s", i, labels[i], labels[i], v, ref, stepString(step))
			break
		}
	}
	if w.Verbose {
		res.Tracef("sequential verdict:\n%s", ref)
	}
	nErr := strings.Count(ref, "E ")
	res.Count("errors_in_reference_verdict", nErr)
	res.Hash = core.HashOf(fmt.Sprint(nIf), model.SortedMap(running), stepString(step))
	res.NonTrivial = nErr > 0 && peak >= 16
	if int(peak) > 0 {
		res.Count("cases_with_16_or_more_goroutines_while_validating", b2i(peak >= 16))
	}
	if idx < 2 {
		res.Sample = map[string]any{"interfaces_in_running": nIf, "intents": len(step), "errors": nErr, "lazy_loads": lazy, "peak_goroutines_while_validating": peak}
	}
	_ = context.Background
}

// PostProcess turns the race detector reports of the workers into findings.
func (c *c17) PostProcess(scratch string, agg *core.Aggregate) {
	reports := core.ParseRaceLogs(scratch, "github.com/sdcio/data-server/")
	agg.ExtraCounts["race_reports_distinct"] += len(reports)
	for _, r := range reports {
		agg.ExtraCounts["race_reports_total"] += r.Count
		text := r.Text
		if len(text) > 6000 {
			text = text[:6000]
		}
		if r.Key == "harness-only" || r.Key == "unparsed" {
			agg.Extra = append(agg.Extra, core.Finding{Verdict: core.Inconclusive, Key: "C17/race-in-harness", Detail: fmt.Sprintf("%d reports\n%s", r.Count, text)})
			continue
		}
		agg.Extra = append(agg.Extra, core.Finding{Verdict: core.Violated, Key: "C17/data-race/" + r.Key, Detail: fmt.Sprintf("%d reports of this pair; first:\n%s", r.Count, text)})
	}
}

func b2i(b bool) int {
	if b {
		return 1
	}
	return 0
}

// treeValidate builds the tree of the transaction the way lowlevelTransactionSet does (old content of the intents flagged
// for deletion, new content, the best alternatives of the other owners, the running store) and validates it.
func (c *c17) treeValidate(run *histRun, step []stepIntent, sequential bool, lazyIndex bool, onDemand bool) (string, error) {
	ctx := run.ctx
	var cc cache.Client = c.h.env.Cache
	var validating atomic.Bool
	if lazyIndex {
		fc := fixture.NewFaultCache(c.h.env.Cache)
		fc.Before = func(call fixture.CacheCall) error {
			if call.Method == "GetKeys" && !validating.Load() {
				return fmt.Errorf("store cannot list its keys (scripted)")
			}
			if call.Method == "GetKeys" && call.Store == cachepb.Store_INTENDED {
				// listing the keys of a store takes its time
				time.Sleep(5 * time.Millisecond)
			}
			return nil
		}
		cc = fc
	}
	tcc := tree.NewTreeCacheClient(run.ds.Name, cc)
	scb := schemaClient.NewSchemaClientBound(fixture.SchemaConfig().GetSchema(), c.h.env.Schema)
	tc := tree.NewTreeContext(tcc, scb, run.ds.Name)
	tcc.RefreshCaches(ctx)
	root, err := tree.NewTreeRoot(ctx, tc)
	if err != nil {
		return "", err
	}
	flagNew := tree.NewUpdateInsertFlags()
	flagNew.SetNewFlag()
	involved := tree.NewPathSet()
	var names []string
	for _, si := range step {
		ti, err := run.ds.SdcpbTransactionIntentToInternalTI(ctx, si.req())
		if err != nil {
			return "", err
		}
		tc.SetActualOwner(ti.GetName())
		names = append(names, ti.GetName())
		old, err := root.LoadIntendedStoreOwnerData(ctx, ti.GetName(), false)
		if err != nil {
			return "", err
		}
		if err := root.AddCacheUpdatesRecursive(ctx, ti.GetUpdates(), flagNew); err != nil {
			return "", err
		}
		involved.Join(old.ToPathSet())
		involved.Join(ti.GetUpdates().ToPathSet())
	}
	for _, e := range tcc.ReadCurrentUpdatesHighestPriorities(ctx, involved.GetPaths(), uint64(len(names)+1)) {
		skip := false
		for _, n := range names {
			if e.Owner() == n {
				skip = true
			}
		}
		if skip {
			continue
		}
		if _, err := root.AddCacheUpdateRecursive(ctx, e, tree.NewUpdateInsertFlags()); err != nil {
			return "", err
		}
	}
	var upds []*cache.Update
	if !onDemand {
		upds, err = tcc.ReadRunningFull(ctx)
		if err != nil {
			return "", err
		}
	}
	for _, u := range upds {
		nu := cache.NewUpdate(u.GetPath(), u.Bytes(), tree.RunningValuesPrio, tree.RunningIntentName, 0)
		if _, err := root.AddCacheUpdateRecursive(ctx, nu, tree.NewUpdateInsertFlags()); err != nil {
			return "", err
		}
	}
	root.FinishInsertionPhase(ctx)
	validating.Store(true)
	vr := root.Validate(ctx, &config.Validation{DisableConcurrency: sequential})
	var l []string
	for _, e := range vr.ErrorsStr() {
		l = append(l, "E "+e)
	}
	for _, e := range vr.WarningsStr() {
		l = append(l, "W "+e)
	}
	sort.Strings(l)
	return c17Addr.ReplaceAllString(strings.Join(l, "\n"), "ADDR"), nil
}
