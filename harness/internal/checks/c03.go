package checks

import (
	"fmt"
	"github.com/sdcio/data-server/pkg/config"
	"strings"
	"sync"
	"time"

	"github.com/sdcio/cache/proto/cachepb"
	"github.com/sdcio/data-server/pkg/cache"

	"verifharness/internal/core"
	"verifharness/internal/fixture"
	"verifharness/internal/model"
)

// C03: rejected and dry-run transactions change nothing; dry run predicts the real run.
// C05: cancel and timeout restore the state from before the transaction.
// C09: re-applying an unchanged intent is a no-op.
// All three run on the shared history engine (hist.go).

type probeCheck struct {
	id string
	h  *hist
	// slowRead: one store read of every re-submission of this case is answered 2.5 s late (C09)
	slowRead bool
}

func init() {
	core.Register(&probeCheck{id: "C03"})
	core.Register(&probeCheck{id: "C05"})
	core.Register(&probeCheck{id: "C09"})
}

func (c *probeCheck) ID() string    { return c.id }
func (c *probeCheck) Level() string { return "exploration" }
func (c *probeCheck) NumCases(tier string) int {
	if tier == "thorough" {
		return 5000
	}
	return 256
}
func (c *probeCheck) steps(tier string) int {
	if tier == "thorough" {
		return 14
	}
	return 9
}

func (c *probeCheck) Rule() string {
	switch c.id {
	case "C03":
		return "one case = one PRNG history (as C01); from sampled reachable states probes are issued before the next real transaction: the same request as dry run, requests invalid in exactly one enforced constraint class (mandatory, mandatory in presence container, leafref, must, max-elements, pattern, length, range at conversion) alone or mixed with valid intents, dry or real, and invalid replace intents; for each probe: 0 Set calls at the device, 0 cache Modify calls, intended and running dumps unchanged, no transaction left registered, the failure surfaced; the dry-run payload is compared with the payload of the real run from the same state (response and what the device received). distinct = request sequence incl. probes; non-trivial = at least one rejected probe and one dry-run/real pair with a non-empty payload were observed"
	case "C05":
		return "one case = one PRNG history (as C01); sampled transactions (single and multi-intent; create, change, shrink, re-prioritise, delete, orphan; shadowed and ruling) are ended by TransactionCancel or by expiry of a 20 ms timeout instead of Confirm; afterwards the complete intended-store dump (incl. priorities) must equal the dump from before the Set, and every path the transaction touched (old and new content of its intents, with key leaves) must have the value or absence on the device it had before. distinct = request sequence incl. which were cancelled/expired; non-trivial = a cancelled/expired transaction changed or deleted an existing intent and had a non-empty payload"
	case "C09":
		return "one case = one PRNG history (as C01); after sampled commits every state is drift-free and a non-empty subset of the live intents (ruling, shadowed or mixed) is re-submitted verbatim (name, priority, content) in one transaction; the device must receive no update and no delete in any rendering (proto, JSON, JSON_IETF, all 8 XML option combinations), the response must list none, and the intended and running dumps must be unchanged. distinct = request sequence; non-trivial = a re-submitted intent was shadowed on some path or the subset had >= 2 intents"
	}
	return ""
}

func (c *probeCheck) Assumptions() []string {
	return []string{
		"the recording device renders every view on the very tree instance handed to Set",
		"store dumps are taken through the cache client (GetKeys/Read/ReadCh); timestamps are not compared",
		"invalid probes use constraint classes the server is observed to enforce; whether the verdict itself is right is C04's question",
		"timeout expiry is observed through the read-only accessor VerifOpenTransaction with a 10 s bound on a 20 ms timeout",
	}
}

func (c *probeCheck) Setup(w *core.Worker) error {
	fixture.Quiet()
	env, err := fixture.NewEnv(w.Scratch)
	if err != nil {
		return err
	}
	c.h = &hist{env: env, owners: []string{"oa", "ob", "oc", "od"}}
	return nil
}

// mustStop ends a history at the first finding, except for the recorded C05 class that does not disturb the rest of the history.
func (c *probeCheck) mustStop(res *core.CaseResult) bool {
	for _, f := range res.Findings {
		if f.Key != "C05/device-not-restored/unmanaged-value-taken-over-by-the-transaction" {
			return true
		}
	}
	return false
}

type invalidProbe struct {
	class string
	vals  map[string]string
	conv  bool // rejected at conversion time already
}

var invalidProbes = []invalidProbe{
	{"mandatory-list", map[string]string{"/cons/mlist[k=x]/opt": "o"}, false},
	{"mandatory-presence", map[string]string{"/cons/mand/opt": "o"}, false},
	{"leafref", map[string]string{"/cons/lref": "no-such-if"}, false},
	{"must", map[string]string{"/cons/mst/b": "x"}, false},
	{"max-elements", map[string]string{"/cons/mm": "LL:1,2,3,4"}, false},
	{"pattern", map[string]string{"/cons/pat": "xyz"}, false},
	{"length", map[string]string{"/cons/len": "toolong"}, false},
	{"range-conversion", map[string]string{"/cons/rng-u": "15"}, true},
	{"must-via-running", map[string]string{"/cons/mst/a": "off"}, false},
}

func (c *probeCheck) RunCase(w *core.Worker, idx int, seed uint64, res *core.CaseResult) {
	rng := core.NewRng(seed)
	poolName := histPools[idx%4] // presence pool excluded: its C01 known finding would only end histories early
	if c.id == "C09" && idx%10 == 7 {
		// (C09 recognises the state diverged by that finding before it re-submits)
		poolName = histPools[4]
	}
	drift := false
	choicePool := false
	if c.id == "C09" && idx%5 == 4 {
		// re-applying an intent whose choice case is overruled by another intent
		poolName, choicePool = "base+choice", true
	}
	if c.id == "C03" && idx%5 == 4 {
		choicePool = true
		// choices (old case deleted through paths that are not in the tree) on a device that drops configuration on its
		// own: the running store loses leaves behind the server's back
		poolName, drift = "base+choice", true
	}
	c.h.pool = poolFor(poolName)
	c.h.noOrphan = choicePool
	// C09, every 7th case: the production gNMI target and a gNMI device on loopback ("empty gNMI set")
	c.h.gnmiWire = ""
	if c.id == "C09" && idx%7 == 6 {
		c.h.gnmiWire = []string{"proto", "json", "json_ietf"}[(idx/7)%3]
		poolName += " gnmi-wire=" + c.h.gnmiWire
	}
	c.slowRead = c.id == "C09" && idx%9 == 8
	if c.slowRead {
		poolName += " slow-read"
	}
	// every 8th case: intents with hundreds of entries
	c.h.bulk = 0
	if idx%8 == 3 {
		c.h.bulk = 150
		poolName += " bulk"
		res.Count("bulk_cases", 1)
	}
	// C05, every 6th case: a datastore whose operator switched the pattern and the length validator off, holding values that
	// are acceptable only because of that (a rollback that validates with other settings than the transaction did cannot
	// restore anything)
	c.h.validation = nil
	laxValidators := c.id == "C05" && idx%6 == 5
	if laxValidators {
		c.h.validation = &config.Validation{DisabledValidators: config.Validators{Pattern: true, Length: true}}
		poolName += " validators(pattern,length)=off"
		res.Count("cases_with_disabled_validators", 1)
	}
	run := c.h.start(rng, res, true, c.id == "C09")
	c.h.validation = nil
	run.ds.Dev.CaptureViews = false
	defer run.close()
	if c.h.gnmiWire != "" {
		if run.gdev == nil {
			return
		}
		res.Count("gnmi_wire_cases:"+c.h.gnmiWire, 1)
	}
	res.Tracef("pool=%s", poolName)
	if laxValidators {
		if _, ok := run.commit([]stepIntent{{Owner: "lax", Prio: 80, Vals: map[string]string{"/cons/pat": "xyz", "/cons/len": "toolong"}, Kind: "create"}}); !ok {
			return
		}
	}
	if c.id == "C03" {
		// two intents the generator never touches: m2's leaf is valid only while m1 says a=on; a transaction that
		// changes m1 alone sees m2's leaf only through the running config (validation error attributed to "running")
		if _, ok := run.commit([]stepIntent{{Owner: "m1", Prio: 90, Vals: map[string]string{"/cons/mst/a": "on"}, Kind: "create"},
			{Owner: "m2", Prio: 91, Vals: map[string]string{"/cons/mst/b": "x"}, Kind: "create"}}); !ok {
			return
		}
	}
	steps := c.steps(w.Tier)
	nt1, nt2 := false, false
	for s := 0; s < steps && !c.mustStop(res); s++ {
		step := run.genStep(3)
		if choicePool {
			for i := range step {
				if !step[i].Delete {
					oneCasePerIntent(step[i].Vals)
					if len(step[i].Vals) == 0 {
						step[i].Vals = map[string]string{"/ch/other": "o1"}
					}
				}
			}
		}
		res.Tracef("step %d: %s", s, stepString(step))
		if drift && rng.Chance(1, 2) {
			// the device drops some leaves and a sync removes them from the running store
			cur, _ := fixture.DumpStore(run.ctx, c.h.env.Cache, run.ds.Name, cachepb.Store_CONFIG)
			var dels [][]string
			for _, k := range sortedKeys(cur) {
				if strings.HasPrefix(k, "ch,") && rng.Chance(1, 3) {
					dels = append(dels, strings.Split(k, ","))
					delete(run.ds.Dev.Config, "/"+strings.ReplaceAll(k, ",", "/"))
					res.Tracef("   drift: device dropped %s", k)
				}
			}
			if len(dels) > 0 {
				c.h.env.Cache.Modify(run.ctx, run.ds.Name, &cache.Opts{Store: cachepb.Store_CONFIG}, dels, nil)
				res.Count("drift_deletes", len(dels))
			}
		}
		switch c.id {
		case "C03":
			if rng.Chance(2, 3) {
				if c.invalidProbe(run, step, rng) {
					nt1 = true
				}
			}
			if rng.Chance(1, 4) && blocking(res) == 0 && !choicePool {
				c.dryReplaceProbe(run, step, rng)
			}
			dryKey := ""
			doDry := rng.Chance(1, 2)
			if doDry && blocking(res) == 0 {
				dryKey = c.dryProbe(run, step)
			}
			if blocking(res) > 0 {
				break
			}
			out, ok := run.commit(step)
			if !ok {
				s = steps
				break
			}
			if doDry {
				realKey := fixture.PayloadKey(out.rsp.GetUpdate(), out.rsp.GetDelete())
				last := run.ds.Dev.Last()
				devKey := fixture.PayloadKey(last.Updates, last.Deletes)
				res.Count("dry_real_pairs", 1)
				if realKey != "" {
					nt2 = true
				}
				if dryKey != realKey {
					res.Violate("C03/dry-run-differs-from-real-run", "step %d [%s]\n  dry : %s\n  real: %s", s, stepString(step), dryKey, realKey)
				}
				if devKey != realKey {
					res.Violate("C03/response-differs-from-device-payload", "step %d [%s]\n  response: %s\n  device  : %s", s, stepString(step), realKey, devKey)
				}
			}
		case "C05":
			if rng.Chance(1, 2) {
				changedExisting := false
				for _, si := range step {
					if run.m.Live[si.Owner] != nil {
						changedExisting = true
					}
				}
				if c.cancelProbe(run, step, rng.Chance(1, 3)) && changedExisting {
					nt1, nt2 = true, true
				}
			} else {
				if _, ok := run.commit(step); !ok {
					s = steps
				}
			}
		case "C09":
			if _, ok := run.commit(step); !ok {
				s = steps
				break
			}
			if rng.Chance(2, 3) && len(run.m.Live) > 0 {
				if c.resubmitProbe(run, rng) {
					nt1, nt2 = true, true
				}
			}
		}
	}
	res.Hash = core.HashOf(append([]string{poolName, fmt.Sprint(run.initRun)}, run.canon...)...)
	res.NonTrivial = nt1 && nt2
	if idx < 2 {
		res.Sample = map[string]any{"pool": poolName, "history_with_probes": run.canon}
	}
}

// stateSnap is what must not change.
type stateSnap struct {
	intended map[string]string
	config   map[string]string
	devSets  int
	modifies int
	dev      map[string]string
	gsets    int
}

func (r *histRun) snap() stateSnap {
	im, cm := r.dumps()
	sn := stateSnap{intended: im, config: cm, devSets: r.ds.Dev.NumSets(), modifies: r.fc.Count("Modify"), dev: r.devSnapshot()}
	if r.gdev != nil {
		sn.gsets = r.gdev.NumSets()
	}
	return sn
}

func (r *histRun) expectUnchanged(prop, what string, before stateSnap) {
	after := r.snap()
	if after.devSets != before.devSets {
		r.res.Violate(prop+"/sent-to-device", "%s: %d Set call(s) reached the device", what, after.devSets-before.devSets)
	}
	if after.modifies != before.modifies {
		r.res.Violate(prop+"/cache-modified", "%s: %d cache Modify call(s)", what, after.modifies-before.modifies)
	}
	if d := fixture.MapDiff(before.intended, after.intended); d != "" {
		r.res.Violate(prop+"/intended-changed", "%s: intended store changed: %s", what, d)
	}
	if d := fixture.MapDiff(before.config, after.config); d != "" {
		r.res.Violate(prop+"/running-changed", "%s: running store changed: %s", what, d)
	}
	if id, _ := r.ds.VerifOpenTransaction(); id != "" {
		r.res.Violate(prop+"/transaction-left-registered", "%s: transaction %q is still registered", what, id)
	}
}

func (c *probeCheck) dryProbe(run *histRun, step []stepIntent) string {
	before := run.snap()
	id := run.nextID() + "dry"
	out := run.set(id, step, nil, time.Minute, true)
	run.canon = append(run.canon, "DRY "+stepString(step))
	if out.convErr != nil || out.panicked || out.err != nil || out.rejected {
		run.res.Inconclusive("C03/dry-run-of-valid-request-failed", "conv=%v err=%v rejected=%v step=%s", out.convErr, out.err, out.rejected, stepString(step))
		return ""
	}
	run.res.Count("dry_runs", 1)
	run.expectUnchanged("C03/dry-run", "dry run of ["+stepString(step)+"]", before)
	return fixture.PayloadKey(out.rsp.GetUpdate(), out.rsp.GetDelete())
}

// dryReplaceProbe: a dry run that carries a VALID replace intent (alone or next to the intents of the step) changes nothing either.
func (c *probeCheck) dryReplaceProbe(run *histRun, step []stepIntent, rng *core.Rng) {
	vals := map[string]string{}
	n := 1 + rng.Intn(4)
	for j := 0; j < n; j++ {
		l := run.h.pool[rng.Intn(len(run.h.pool))]
		if isChoiceMember(l.XPath) {
			continue
		}
		vals[l.XPath] = l.Vals[rng.Intn(len(l.Vals))]
	}
	if len(vals) == 0 {
		vals["/sys/descr"] = "a"
	}
	repl := stepIntent{Owner: "repl", Prio: 2, Vals: vals, Kind: "replace-intent"}
	var with []stepIntent
	if rng.Bool() {
		with = step
	}
	before := run.snap()
	id := run.nextID() + "dryrepl"
	out := run.set(id, with, &repl, time.Minute, true)
	what := fmt.Sprintf("dry run with the valid replace intent %s and [%s]", model.SortedMap(vals), stepString(with))
	run.canon = append(run.canon, "DRY-REPLACE "+what)
	if out.panicked {
		return
	}
	if out.convErr != nil || out.err != nil || out.rejected {
		run.res.Count("dry_replace_probes_refused", 1)
	}
	run.res.Count("dry_replace_probes", 1)
	run.expectUnchanged("C03/dry-run-with-replace-intent", what, before)
}

// invalidProbe issues one request that must be refused; returns true if a rejection was observed.
func (c *probeCheck) invalidProbe(run *histRun, next []stepIntent, rng *core.Rng) bool {
	p := invalidProbes[rng.Intn(len(invalidProbes))]
	mode := rng.Intn(5) // 0 alone, 1 mixed with the valid intents of the next step, 2 as replace intent alone, 3 replace + valid intents, 4 invalid intent next to a VALID replace intent
	dry := rng.Chance(1, 4)
	bad := stepIntent{Owner: "bad", Prio: 3, Vals: p.vals, Kind: "invalid:" + p.class}
	if p.class == "must-via-running" {
		bad.Owner, bad.Prio = "m1", 90
		if mode >= 2 {
			mode = mode % 2 // not as replace intent
		}
	}
	var step []stepIntent
	var repl *stepIntent
	switch mode {
	case 0:
		step = []stepIntent{bad}
	case 1:
		step = append(append([]stepIntent{}, next...), bad)
	case 2:
		repl = &bad
	case 3:
		repl = &bad
		step = append([]stepIntent{}, next...)
	case 4:
		repl = &stepIntent{Owner: "repl", Prio: 2, Vals: map[string]string{"/sys/descr": []string{"a", "b", "c"}[rng.Intn(3)], "/sys/mtu-max": "200"}, Kind: "replace-intent"}
		step = []stepIntent{bad}
	}
	what := fmt.Sprintf("invalid(%s) mode=%d dry=%v", p.class, mode, dry)
	before := run.snap()
	id := run.nextID() + "bad"
	out := run.set(id, step, repl, time.Minute, dry)
	run.canon = append(run.canon, "PROBE "+what)
	run.res.Count("invalid_probes", 1)
	run.res.Count("invalid:"+p.class, 1)
	if out.panicked {
		return false
	}
	surfaced := out.convErr != nil || out.err != nil || out.rejected
	if !surfaced {
		if repl != nil && mode != 4 {
			run.res.Violate("C03/failing-replace-intent-reported-as-success", "%s: TransactionSet returned success without any intent error\n  replace intent: %s", what, model.SortedMap(p.vals))
		} else {
			// the server does not enforce this instance: whether it should is C04's question; undo and go on
			run.res.Count("invalid_probe_accepted(C04)", 1)
			run.res.Count("invalid_probe_accepted(C04):"+p.class+fmt.Sprintf("/mode%d", mode), 1)
		}
		if !dry {
			run.ds.TransactionCancel(run.ctx, id)
		}
		return false
	}
	run.res.Count("rejections_observed", 1)
	if mode == 4 {
		// (own key: the replace intent is processed - validated, sent, written to running - before the other intents are looked at)
		run.expectUnchanged("C03/rejected-next-to-a-valid-replace-intent", what, before)
	} else {
		run.expectUnchanged("C03/rejected", what, before)
	}
	if out.err != nil && strings.Contains(out.err.Error(), "context deadline") {
		run.res.Inconclusive("C03/probe-timeout", "%s: %v", what, out.err)
	}
	return true
}

// cancelProbe executes the step and ends it by cancel or expiry; the model stays as it was.
func (c *probeCheck) cancelProbe(run *histRun, step []stepIntent, byTimeout bool) bool {
	before := run.snap()
	id := run.nextID()
	to := time.Hour
	how := "cancel"
	if byTimeout {
		to = 20 * time.Millisecond
		how = "timeout"
	}
	if byTimeout && run.rng.Chance(1, 2) {
		// slow device: the push takes longer than the transaction timeout (the timeout must not strike while the
		// transaction is still being applied)
		how = "timeout(slow device)"
		first := true
		run.ds.Dev.SetHook = func(n int) {
			if first {
				first = false
				time.Sleep(60 * time.Millisecond)
			}
		}
		defer func() { run.ds.Dev.SetHook = nil }()
	}
	if byTimeout && how == "timeout" && run.rng.Chance(1, 2) {
		// slow store: the timeout elapses while the transaction still writes its bookkeeping (the rollback must not
		// run against half written stores); every second time with a timeout of zero
		how = "timeout(slow store)"
		if run.rng.Chance(1, 2) {
			to = 0
			how = "timeout(zero, slow store)"
		}
		run.fc.Before = func(cc fixture.CacheCall) error {
			if cc.Method == "Modify" {
				time.Sleep(30 * time.Millisecond)
			}
			return nil
		}
		defer func() { run.fc.Before = nil }()
	}
	if !byTimeout && run.rng.Chance(1, 4) {
		// cancel, then the same request again under a new id, left to its timeout: the rollback timer of the cancelled
		// transaction must be gone, or it strikes in the middle of the next transaction
		how = "cancel-then-timeout"
		byTimeout = true
		// the cancelled transaction is about an intent of its own, so that its rollback cannot happen to undo the next one
		tmp := []stepIntent{{Owner: "tmp", Prio: 4, Vals: map[string]string{"/sys/b-leaf": "bb"}, Kind: "create"}}
		first := run.set(id, tmp, nil, 120*time.Millisecond, false)
		if first.convErr != nil || first.panicked || first.err != nil || first.rejected {
			run.res.Inconclusive("C05/valid-request-failed", "conv=%v err=%v rejected=%v step=%s", first.convErr, first.err, first.rejected, stepString(tmp))
			return false
		}
		var cerr error
		if apiCall(run.res, "TransactionCancel", func() { cerr = run.ds.TransactionCancel(run.ctx, id) }) {
			return false
		}
		if cerr != nil {
			run.res.Violate("C05/cancel-failed", "TransactionCancel(%s) returned %v; step=%s", id, cerr, stepString(step))
			return false
		}
		id = run.nextID()
		to = 250 * time.Millisecond
		defer func() {
			// let a stale timer of the cancelled transaction strike before the history goes on
			time.Sleep(5 * time.Millisecond)
		}()
	}
	out := run.set(id, step, nil, to, false)
	run.canon = append(run.canon, strings.ToUpper(how)+" "+stepString(step))
	if out.convErr != nil || out.panicked || out.err != nil || out.rejected {
		run.res.Inconclusive("C05/valid-request-failed", "conv=%v err=%v rejected=%v step=%s", out.convErr, out.err, out.rejected, stepString(step))
		return false
	}
	payload := fixture.PayloadKey(out.rsp.GetUpdate(), out.rsp.GetDelete())
	if byTimeout {
		deadline := time.Now().Add(10 * time.Second)
		for {
			if id, _ := run.ds.VerifOpenTransaction(); id == "" {
				break
			}
			if time.Now().After(deadline) {
				run.res.Violate("C05/timeout-did-not-release", "transaction still registered 10 s after its %v timeout; step=%s", to, stepString(step))
				return false
			}
			time.Sleep(time.Millisecond)
		}
		if how == "cancel-then-timeout" {
			// the transaction may have been unregistered by something else than its own expiry: give its own timer the
			// time to fire before looking at the stores
			time.Sleep(to + 50*time.Millisecond)
			for i := 0; i < 10000; i++ {
				if id, _ := run.ds.VerifOpenTransaction(); id == "" {
					break
				}
				time.Sleep(time.Millisecond)
			}
		}
	} else {
		var err error
		if apiCall(run.res, "TransactionCancel", func() { err = run.ds.TransactionCancel(run.ctx, id) }) {
			return false
		}
		if err != nil {
			run.res.Violate("C05/cancel-failed", "TransactionCancel(%s) returned %v; step=%s", id, err, stepString(step))
			return false
		}
	}
	run.res.Count("ended_by_"+how, 1)
	after := run.snap()
	what := fmt.Sprintf("%s of [%s] (payload: %s)", how, stepString(step), payload)
	if d := fixture.MapDiff(before.intended, after.intended); d != "" {
		run.res.Violate("C05/intended-not-restored", "%s: %s\n  model before: %s", what, d, run.m)
	}
	// touched paths: old and new content of the transaction's intents
	touched := map[string]bool{}
	for _, si := range step {
		if old := run.m.Live[si.Owner]; old != nil {
			for k := range old.Expanded() {
				touched[k] = true
			}
		}
		ni := model.Intent{Vals: si.Vals}
		for k := range ni.Expanded() {
			touched[k] = true
		}
	}
	for k := range touched {
		bv, bok := before.dev[k]
		av, aok := after.dev[k]
		if bok != aok || bv != av {
			feat := featureOf(k)
			if _, owned := run.m.Winners()[k]; bok && !owned {
				// the value the device had before was not defined by any intent (unmanaged running configuration)
				feat = "/unmanaged-value-taken-over-by-the-transaction"
			}
			run.res.Violate("C05/device-not-restored"+feat, "%s: %s was %q (present=%v) before and is %q (present=%v) after\n  model: %s", what, k, bv, bok, av, aok, run.m)
		}
	}
	run.res.Count("touched_paths_checked", len(touched))
	return payload != ""
}

// resubmitProbe re-submits a subset of the live intents verbatim.
func (c *probeCheck) resubmitProbe(run *histRun, rng *core.Rng) bool {
	owners := []string{}
	for _, o := range run.h.owners {
		if run.m.Live[o] != nil {
			owners = append(owners, o)
		}
	}
	var step []stepIntent
	for _, o := range owners {
		if rng.Bool() {
			step = append(step, stepIntent{Owner: o, Prio: run.m.Live[o].Prio, Vals: copyMap(run.m.Live[o].Vals), Kind: "verbatim"})
		}
	}
	if len(step) == 0 {
		o := owners[rng.Intn(len(owners))]
		step = append(step, stepIntent{Owner: o, Prio: run.m.Live[o].Prio, Vals: copyMap(run.m.Live[o].Vals), Kind: "verbatim"})
	}
	W := run.m.Winners()
	shadowed := false
	for _, si := range step {
		for k := range run.m.Live[si.Owner].Expanded() {
			if W[k].Owner != si.Owner {
				shadowed = true
			}
		}
	}
	before := run.snap()
	// is the state already diverged by the recorded C01 finding (a leaf a live intent rules is missing on the device
	// because another owner's delete of the presence container above it took it along)? Then the re-submission repairs
	// the device: that is the same defect seen from here, reported under its own key
	lostChild := ""
	for _, si := range step {
		for k := range run.m.Live[si.Owner].Expanded() {
			if _, ok := before.dev[k]; !ok {
				kp := model.Parse(k)
				for i := 1; i < len(kp); i++ {
					if presenceContainers[kp[:i].String()] {
						lostChild = k
					}
				}
			}
		}
	}
	id := run.nextID() + "re"
	run.ds.Dev.CaptureViews = true
	if c.slowRead {
		// a store that answers one of the reads of this transaction late (a loaded or remote cache); late is not absent
		k, n := 1+run.rng.Intn(6), 0
		var mu sync.Mutex
		run.fc.Before = func(cc fixture.CacheCall) error {
			if cc.Method == "Modify" {
				return nil
			}
			mu.Lock()
			n++
			hit := n == k
			mu.Unlock()
			if hit {
				run.res.Count("slow_reads_injected", 1)
				time.Sleep(2500 * time.Millisecond)
			}
			return nil
		}
	}
	out := run.set(id, step, nil, time.Minute, false)
	run.fc.Before = nil
	run.ds.Dev.CaptureViews = false
	run.canon = append(run.canon, "RESUBMIT "+stepString(step))
	if out.convErr != nil || out.panicked || out.err != nil || out.rejected {
		run.res.Inconclusive("C09/resubmit-failed", "conv=%v err=%v rejected=%v step=%s", out.convErr, out.err, out.rejected, stepString(step))
		return false
	}
	run.res.Count("resubmissions", 1)
	run.res.Count("resubmitted_intents", len(step))
	what := "re-submission of [" + stepString(step) + "]"
	if lostChild != "" {
		if k := fixture.PayloadKey(out.rsp.GetUpdate(), out.rsp.GetDelete()); k != "" {
			run.res.Violate("C09/resends-child-lost-by-presence-container-delete", "%s: the device had lost %s before (presence container above it deleted by another owner, the C01 finding), the re-submission sends %s\n  model: %s", what, lostChild, k, run.m)
		}
		apiCall(run.res, "TransactionConfirm", func() { run.ds.TransactionConfirm(run.ctx, id) })
		return false
	}
	if k := fixture.PayloadKey(out.rsp.GetUpdate(), out.rsp.GetDelete()); k != "" {
		run.res.Violate("C09/response-lists-changes", "%s: response carries %s\n  model: %s", what, k, run.m)
	}
	for i, rec := range run.ds.Dev.AllSets() {
		if i < before.devSets {
			continue
		}
		if k := fixture.PayloadKey(rec.Updates, rec.Deletes); k != "" {
			run.res.Violate("C09/device-received-changes", "%s: device received %s\n  model: %s", what, k, run.m)
		}
		if rec.Views != nil {
			for _, e := range rec.Views.Errors {
				run.res.Inconclusive("C09/view-error", "%s: %s", what, e)
			}
			for _, j := range []string{rec.Views.JSON[true], rec.Views.JSONIETF[true]} {
				if t := strings.TrimSpace(j); t != "{}" && t != "null" && t != "" {
					run.res.Violate("C09/json-not-empty", "%s: JSON rendering of the change is %s", what, t)
				}
			}
			for o, x := range rec.Views.XML {
				if !o.OnlyNew {
					continue
				}
				if strings.Contains(x, "<") {
					run.res.Violate("C09/xml-not-empty", "%s: XML rendering (%+v) of the change is %s", what, o, x)
					break
				}
			}
			run.res.Count("empty_renderings_checked", 2+8)
		}
	}
	if run.gdev != nil {
		for _, st := range run.gdev.SetsSince(before.gsets) {
			run.res.Count("gnmi_set_requests_on_resubmission", 1)
			if len(st.Req.GetDelete())+len(st.Req.GetUpdate())+len(st.Req.GetReplace()) > 0 {
				run.res.Violate("C09/gnmi-set-not-empty", "%s: the gNMI device received %s\n  model: %s", what, fixture.DescribeSet(st.Req), run.m)
			}
		}
		if d := fixture.MapDiff(before.dev, run.devSnapshot()); d != "" {
			run.res.Violate("C09/gnmi-device-changed", "%s: %s", what, d)
		}
	}
	var cerr error
	apiCall(run.res, "TransactionConfirm", func() { cerr = run.ds.TransactionConfirm(run.ctx, id) })
	if cerr != nil {
		run.res.Inconclusive("C09/confirm", "%v", cerr)
	}
	after := run.snap()
	if d := fixture.MapDiff(before.intended, after.intended); d != "" {
		run.res.Violate("C09/intended-changed", "%s: %s", what, d)
	}
	if d := fixture.MapDiff(before.config, after.config); d != "" {
		run.res.Violate("C09/running-changed", "%s: %s", what, d)
	}
	return shadowed || len(step) >= 2
}

// blocking counts the findings that end a history: everything except the recorded replace-intent finding, after which the
// history goes on (the stores are compared relative to their state before each probe).
func blocking(res *core.CaseResult) int {
	n := 0
	for _, f := range res.Findings {
		if !strings.HasPrefix(f.Key, "C03/rejected-next-to-a-valid-replace-intent/") {
			n++
		}
	}
	return n
}
