package checks

import (
	"context"
	"fmt"
	"sort"
	"strconv"
	"strings"
	"time"

	"github.com/sdcio/data-server/pkg/config"
	sdcpb "github.com/sdcio/sdc-protos/sdcpb"

	"verifharness/internal/core"
	"verifharness/internal/fixture"
	"verifharness/internal/model"
)

// C04: the accept/reject verdict of TransactionSet is the validity of the resulting configuration.
//
// Two oracles per transaction of a PRNG history over the constraint part of the schema:
//   (a) reference validator (model.Validate) over the winner-per-path merge the transaction would produce;
//   (b) differential: the same resulting configuration submitted as ONE intent to an EMPTY datastore (dry-run)
//       must get the same verdict - needs no reference validator at all.

type c04 struct {
	h *hist
}

func init() { core.Register(&c04{}) }

func (c *c04) ID() string    { return "C04" }
func (c *c04) Level() string { return "exploration" }
func (c *c04) NumCases(tier string) int {
	if tier == "thorough" {
		return 6000
	}
	return 360
}
func (c *c04) Rule() string {
	return "one case = one PRNG history of TransactionSet calls (1-3 intents of 3 owners with distinct priorities; create / replace / tweak / re-prioritise / delete, and only-intended delete of intents all of whose leaves another live intent defines too) over a pool that exercises every constraint class (range on signed and unsigned leaves carried as strings and as typed values, length, single and double pattern, min-/max-elements, mandatory below a presence container and in list entries, leafref absolute / relative / in a leaf-list / in a list with require-instance true and false, must across sibling leaves) with values that are valid or invalid by themselves and values whose validity depends on other owners' leaves; per case a drawn subset of validator switches is disabled (every third case: none). For every transaction the verdict (accepted, or refused at conversion / by Set / by intent errors) is compared (a) with the reference validator applied to the winner-per-path merge the transaction would produce and (b) with the verdict a fresh empty datastore gives the same merge as one intent. Accepted transactions are confirmed and the history goes on from the new state, refused ones leave the state. Every eighth case runs shadow-removal scenarios instead (intent A holds a valid value, intent B is accepted with a value for the same leaf that is invalid by itself, then A is deleted / only-intended deleted / drops the leaf / is re-prioritised behind B / B moves before A: the result carrying B's value must be refused). Every fourth case is a partition case instead: 8 (thorough 14) drawn configurations, each split into 2-4 intents with drawn distinct priorities, intents of lower precedence additionally carrying shadowed valid or invalid values for leaves another intent rules, all submitted in one transaction (intents in drawn order) to an empty datastore and judged by the same two oracles. distinct = request sequence + switches; non-trivial = the history saw both verdicts and at least one transaction whose validity was decided by a leaf of an owner that was not part of it or by the removal of a shadowing value"
}
func (c *c04) Assumptions() []string {
	return []string{
		"the reference validator (harness/internal/model/validate.go) is hand-written from harness/yang/vfa.yang; min-elements is only judged on leaf-lists that are present; mandatory only below the presence container /cons/mand and in entries of /cons/mlist",
		"an out-of-range value carried as a string is refused when the request is converted, whatever the Range switch says: with Range disabled, transactions whose result has a range violation are not judged against the reference (they are still compared with the empty-datastore verdict)",
		"the running configuration holds nothing but what the history wrote (no unmanaged device configuration), so 'resulting configuration' = merge of live intents",
	}
}

func (c *c04) Setup(w *core.Worker) error {
	fixture.Quiet()
	env, err := fixture.NewEnv(w.Scratch)
	if err != nil {
		return err
	}
	c.h = &hist{env: env, owners: []string{"oa", "ob", "oc"}}
	tvOverride = c04Tv
	return nil
}

// c04Tv: range leaves rng-s and vlan travel as typed values (so the range validator of the tree sees them),
// the others as strings (range-checked when the request is converted).
func c04Tv(path, lex string) *sdcpb.TypedValue {
	switch {
	case path == "/cons/rng-s":
		if n, err := strconv.ParseInt(lex, 10, 64); err == nil {
			return &sdcpb.TypedValue{Value: &sdcpb.TypedValue_IntVal{IntVal: n}}
		}
	case strings.HasSuffix(path, "/vlan"):
		if n, err := strconv.ParseUint(lex, 10, 64); err == nil {
			return &sdcpb.TypedValue{Value: &sdcpb.TypedValue_UintVal{UintVal: n}}
		}
	}
	return nil
}

// consLeaf: a leaf of the constraint pool; good values are valid by themselves, bad ones violate the leaf's own constraint;
// support is what makes a context dependent leaf valid.
type consLeaf struct {
	path    string
	good    []string
	bad     []string
	support func(v string) map[string]string
}

func ifSupport(names ...string) map[string]string {
	m := map[string]string{}
	for _, n := range names {
		m["/if[name="+n+"]/descr"] = "a"
	}
	return m
}

var consPool = []consLeaf{
	{path: "/sys/name", good: []string{"r1", "r2"}, bad: []string{"abcdefghijklmnopq"}},
	{path: "/sys/mtu", good: []string{"1500", "68", "9000"}, bad: []string{"67", "9001"}},
	{path: "/sys/descr", good: []string{"a", "b"}},
	{path: "/if[name=e1]/descr", good: []string{"a", "b"}},
	{path: "/if[name=e2]/descr", good: []string{"a", "b"}},
	{path: "/if[name=e1]/unit[id=1]/vlan", good: []string{"1", "4094", "100"}, bad: []string{"0", "4095"}},
	{path: "/peer[name=n1][zone=z1]/via", good: []string{"e1", "e2"}, support: func(v string) map[string]string { return ifSupport(v) }},
	{path: "/peer[name=n1][zone=z1]/as", good: []string{"1", "2"}},
	{path: "/peer[name=n1][zone=z1]/via-unit", good: []string{"1", "2"}, support: func(v string) map[string]string {
		return map[string]string{"/peer[name=n1][zone=z1]/via": "e1", "/if[name=e1]/unit[id=" + v + "]/descr": "u", "/if[name=e1]/descr": "a"}
	}},
	{path: "/if[name=e1]/unit[id=1]/descr", good: []string{"u"}},
	{path: "/if[name=e2]/unit[id=1]/descr", good: []string{"u"}},
	{path: "/cons/rng-s", good: []string{"-10", "-2", "5", "9", "-5"}, bad: []string{"-11", "0", "10", "-1", "4"}},
	{path: "/cons/rng-u", good: []string{"1", "10", "20", "5"}, bad: []string{"0", "15", "21"}},
	// (length counts characters, not bytes: "éé" has 2 characters in 4 bytes, "üöäß" 4 in 8, "é" 1 in 2, "日本語文字" 5 in 15)
	{path: "/cons/len", good: []string{"ab", "abcd", "éé", "üöäß", "日本語"}, bad: []string{"a", "abcde", "é", "日本語文字"}},
	{path: "/cons/pat", good: []string{"abc", "a", "cab"}, bad: []string{"abd", "x", "ab1"}},
	{path: "/cons/pat2", good: []string{"1", "123", "10"}, bad: []string{"23", "1a", "a1"}},
	{path: "/cons/mm", good: []string{"LL:1", "LL:1,2,3"}, bad: []string{"LL:1,2,3,4"}},
	{path: "/cons/mmin", good: []string{"LL:1,2", "LL:1,2,3,4"}, bad: []string{"LL:1"}},
	{path: "/sys/dns", good: []string{"LL:a", "LL:a,b,c"}, bad: []string{"LL:a,b,c,d"}},
	{path: "/cons/mand", good: []string{"EMPTY"}, support: func(string) map[string]string { return map[string]string{"/cons/mand/must-have": "m"} }},
	{path: "/cons/mand/must-have", good: []string{"m", "n"}},
	{path: "/cons/mand/opt", good: []string{"o"}, support: func(string) map[string]string { return map[string]string{"/cons/mand/must-have": "m"} }},
	{path: "/cons/mlist[k=x]/req", good: []string{"r", "s"}},
	{path: "/cons/mlist[k=x]/opt", good: []string{"o"}, support: func(string) map[string]string { return map[string]string{"/cons/mlist[k=x]/req": "r"} }},
	{path: "/cons/mlist[k=y]/opt", good: []string{"o"}, support: func(string) map[string]string { return map[string]string{"/cons/mlist[k=y]/req": "r"} }},
	{path: "/cons/mlist[k=y]/req", good: []string{"r"}},
	{path: "/cons/lref", good: []string{"e1", "e2", "e9"}, support: func(v string) map[string]string { return ifSupport(v) }},
	{path: "/cons/lref-opt", good: []string{"e1", "nope"}},
	{path: "/cons/lrefs", good: []string{"LL:e1", "LL:e1,e2", "LL:e2,e9"}, support: func(v string) map[string]string { return ifSupport(llElemsOf(v)...) }},
	{path: "/cons/lref-rel", good: []string{"r1", "r2"}, support: func(v string) map[string]string { return map[string]string{"/sys/name": v} }},
	{path: "/cons/mst/a", good: []string{"on", "off"}},
	{path: "/cons/mst/b", good: []string{"x", "y"}, support: func(string) map[string]string { return map[string]string{"/cons/mst/a": "on"} }},
	{path: "/cons/mst/e", good: []string{"true", "false"}},
	{path: "/cons/mst/f", good: []string{"y"}, support: func(string) map[string]string { return map[string]string{"/cons/mst/e": "true"} }},
	// must statements over leaves with a default: valid as long as nobody sets the operand to something else
	{path: "/cons/mst/g", good: []string{"gd", "other"}},
	{path: "/cons/mst/h", good: []string{"hv"}},
	{path: "/cons/mst/k", good: []string{"kv"}},
	{path: "/sys/log/level", good: []string{"info", "warn"}},
	{path: "/if[name=e1]/enabled", good: []string{"true", "false"}},
	{path: "/if[name=e1]/unit[id=1]/chk", good: []string{"c"}},
	{path: "/if[name=e2]/unit[id=2]/chk", good: []string{"c"}},
}

func llElemsOf(v string) []string {
	if len(v) <= 3 {
		return nil
	}
	return strings.Split(v[3:], ",")
}

// drawContent draws the content of one intent.
func c04DrawContent(rng *core.Rng, into map[string]string, n int) {
	for j := 0; j < n; j++ {
		l := consPool[rng.Intn(len(consPool))]
		var v string
		if len(l.bad) > 0 && rng.Chance(1, 9) {
			v = l.bad[rng.Intn(len(l.bad))]
		} else {
			v = l.good[rng.Intn(len(l.good))]
		}
		into[l.path] = v
		// mostly bring the leaves along that make a context dependent leaf valid; otherwise it is up to the other owners
		if l.support != nil && rng.Chance(3, 5) {
			for k, sv := range l.support(v) {
				if _, ok := into[k]; !ok || rng.Chance(1, 2) {
					into[k] = sv
				}
			}
		}
	}
}

func (c *c04) genStep(run *histRun) []stepIntent {
	rng := run.rng
	nint := 1
	if rng.Chance(1, 3) {
		nint = 2 + rng.Intn(2)
	}
	perm := rng.Perm(len(c.h.owners))
	taken := map[int32]bool{}
	for _, in := range run.m.Live {
		taken[in.Prio] = true
	}
	var step []stepIntent
	for i := 0; i < nint; i++ {
		o := c.h.owners[perm[i]]
		cur := run.m.Live[o]
		si := stepIntent{Owner: o}
		act := rng.Intn(12)
		switch {
		case cur != nil && act < 3:
			si.Delete, si.Prio, si.Kind = true, cur.Prio, "delete"
			// only-intended delete, where it leaves nothing unmanaged behind: every leaf of the intent is also defined by
			// another live intent (which takes over). What unmanaged leftovers mean for validation is not said by the statement.
			covered := true
			for k := range cur.Expanded() {
				other := false
				for o2, in2 := range run.m.Live {
					if o2 != o {
						if _, ok := in2.Expanded()[k]; ok {
							other = true
						}
					}
				}
				covered = covered && other
			}
			if covered && rng.Chance(1, 2) {
				si.Orphan, si.Kind = true, "orphan"
			}
		case cur != nil && act < 5:
			si.Prio, si.Kind, si.Vals = run.freshPrio(o, taken), "reprio", copyMap(cur.Vals)
		case cur != nil && act < 9:
			// tweak: drop some leaves, add / change some
			si.Prio, si.Kind, si.Vals = cur.Prio, "tweak", copyMap(cur.Vals)
			for _, k := range sortedKeys(si.Vals) {
				if rng.Chance(1, 4) {
					delete(si.Vals, k)
				}
			}
			c04DrawContent(rng, si.Vals, rng.Intn(3))
			if len(si.Vals) == 0 {
				si.Vals["/sys/descr"] = "a"
			}
		default:
			si.Kind, si.Vals = "create", map[string]string{}
			if cur != nil {
				si.Prio, si.Kind = cur.Prio, "replace"
			} else {
				si.Prio = run.freshPrio(o, taken)
			}
			c04DrawContent(rng, si.Vals, 1+rng.Intn(5))
		}
		taken[si.Prio] = true
		step = append(step, si)
	}
	return step
}

var c04Switches = []string{"Mandatory", "Leafref", "LeafrefMinMaxAttributes", "Pattern", "MustStatement", "Length", "Range"}

func c04Validation(disabled map[string]bool) *config.Validation {
	return &config.Validation{DisabledValidators: config.Validators{
		Mandatory: disabled["Mandatory"], Leafref: disabled["Leafref"], LeafrefMinMaxAttributes: disabled["LeafrefMinMaxAttributes"],
		Pattern: disabled["Pattern"], MustStatement: disabled["MustStatement"], Length: disabled["Length"], Range: disabled["Range"],
	}}
}

// winnersFlat: the merge of live intents, key leaves included.
func winnersFlat(m *model.Intents) map[string]string {
	out := map[string]string{}
	for k, w := range m.Winners() {
		out[k] = w.Value
	}
	return out
}

// withoutKeyLeaves drops the key leaves (a client does not send them as updates of their own).
func withoutKeyLeaves(cfg map[string]string) map[string]string {
	keys := map[string]bool{}
	for p := range cfg {
		for kp := range model.Parse(p).KeyLeaves() {
			keys[kp] = true
		}
	}
	out := map[string]string{}
	for p, v := range cfg {
		if !keys[p] {
			out[p] = v
		}
	}
	return out
}

// c04Class guesses the constraint class a refusal is about from its text (only used to key findings).
func c04Class(msg string) string {
	m := strings.ToLower(msg)
	switch {
	case strings.Contains(m, "mandatory"):
		return "mandatory"
	case strings.Contains(m, "leafref") || strings.Contains(m, "reference"):
		return "leafref"
	case strings.Contains(m, "must"):
		return "must"
	case strings.Contains(m, "min-elements") || strings.Contains(m, "max-elements"):
		return "min-max-elements"
	case strings.Contains(m, "range"):
		return "range"
	case strings.Contains(m, "length"):
		return "length"
	case strings.Contains(m, "pattern"):
		return "pattern"
	}
	return "other"
}

type c04Verdict struct {
	accepted bool
	why      string // refusal text
	broken   bool   // the call panicked or failed in a way that is no verdict
}

func c04VerdictOf(out setOutcome) c04Verdict {
	switch {
	case out.panicked:
		return c04Verdict{broken: true, why: "panic"}
	case out.convErr != nil:
		return c04Verdict{why: "conversion: " + out.convErr.Error()}
	case out.err != nil:
		if strings.Contains(out.err.Error(), "context deadline") {
			return c04Verdict{broken: true, why: out.err.Error()}
		}
		return c04Verdict{why: "set: " + out.err.Error()}
	case out.rejected:
		msgs := []string{}
		for name, ir := range out.rsp.GetIntents() {
			for _, e := range ir.GetErrors() {
				msgs = append(msgs, name+": "+e)
			}
		}
		sort.Strings(msgs)
		return c04Verdict{why: strings.Join(msgs, " | ")}
	}
	return c04Verdict{accepted: true}
}

// solo submits cfg as one intent to a fresh empty datastore (dry-run) and returns the verdict.
func (c *c04) solo(res *core.CaseResult, cfg map[string]string, val *config.Validation) c04Verdict {
	ds := c.h.env.NewDS(fixture.DSOpts{Validation: val})
	defer ds.Close()
	r := &histRun{h: c.h, ds: ds, m: model.NewIntents(), res: res, ctx: context.Background(), usedPrio: map[int32]string{}, initRun: map[string]string{}}
	out := r.set("solo", []stepIntent{{Owner: "solo", Prio: 10, Vals: withoutKeyLeaves(cfg), Kind: "create"}}, nil, time.Minute, true)
	return c04VerdictOf(out)
}

func (c *c04) RunCase(w *core.Worker, idx int, seed uint64, res *core.CaseResult) {
	rng := core.NewRng(seed)
	disabled := map[string]bool{}
	if idx%3 != 0 {
		for _, s := range c04Switches {
			if rng.Chance(1, 3) {
				disabled[s] = true
			}
		}
	}
	dl := []string{}
	for _, s := range c04Switches {
		if disabled[s] {
			dl = append(dl, s)
		}
	}
	val := c04Validation(disabled)
	c.h.validation = val
	if idx%4 == 3 {
		c.partitionCase(w, idx, rng, res, disabled, dl, val)
		return
	}
	if idx%8 == 1 {
		c.shadowCase(w, idx, rng, res, disabled, dl, val)
		return
	}
	run := c.h.start(rng, res, false, false)
	defer run.close()
	res.Tracef("disabled validators: %v", dl)
	steps := 10
	if w.Tier == "thorough" {
		steps = 16
	}
	sawAccept, sawRefuse, sawContext := false, false, false
	// diverged: the device lost a leaf a live intent defines because a presence container above it was deleted
	// (the C01 finding owned-child-removed-by-presence-container-delete); the running mirror the validators rely on
	// for the leaves of owners outside a transaction is wrong from then on
	diverged := ""
	for s := 0; s < steps && len(res.Findings) == 0; s++ {
		step := c.genStep(run)
		res.Tracef("step %d: %s", s, stepString(step))
		after := applyToModel(run.m, step)
		if len(after.Orphaned) > 0 {
			// the other intents of the same transaction uncovered a leaf of the only-intended deleted intent: it would stay
			// on the device unmanaged - make it a plain delete
			for i := range step {
				if step[i].Orphan {
					step[i].Orphan, step[i].Kind = false, "delete"
				}
			}
			after = applyToModel(run.m, step)
		}
		R := winnersFlat(after)
		exp := model.Validate(R, disabled)
		expAll := model.Validate(R, nil)
		dontCare := false
		if disabled["Range"] {
			for _, v := range expAll {
				if v.Class == "range" {
					dontCare = true
				}
			}
		}
		// context: a violation (or its absence) decided by leaves of owners outside the transaction
		if c04ContextDecided(run.m, after, step, disabled) {
			sawContext = true
		}
		id := run.nextID()
		out := run.set(id, step, nil, time.Minute, false)
		run.canon = append(run.canon, stepString(step))
		v := c04VerdictOf(out)
		if v.broken {
			if !out.panicked {
				res.Inconclusive("C04/no-verdict", "step %d [%s]: %s", s, stepString(step), v.why)
			}
			return
		}
		res.Count("transactions", 1)
		where := fmt.Sprintf("step %d [%s] disabled=%v\n  resulting configuration: %s\n  state before: %s", s, stepString(step), dl, model.SortedMap(withoutKeyLeaves(R)), run.m)
		if v.accepted {
			sawAccept = true
			res.Count("accepted", 1)
		} else {
			sawRefuse = true
			res.Count("refused", 1)
			res.Count("refused:"+c04Class(v.why), 1)
		}
		if !dontCare {
			switch {
			case v.accepted && len(exp) > 0:
				res.Violate(c04Key("C04/invalid-result-accepted/"+exp[0].Class, diverged), "%s\n  accepted although the result violates %v", where, exp)
			case !v.accepted && len(exp) == 0:
				res.Violate(c04Key("C04/valid-result-refused/"+c04Class(v.why), diverged), "%s\n  refused although the result satisfies every enforced constraint: %s", where, v.why)
			}
		} else {
			res.Count("not_judged_range_with_switch_off", 1)
		}
		// (b) the same result as one intent on an empty datastore
		if rng.Chance(1, 2) && len(R) > 0 {
			sv := c.solo(res, R, val)
			if sv.broken {
				res.Inconclusive("C04/no-solo-verdict", "%s: %s", where, sv.why)
				return
			}
			res.Count("solo_comparisons", 1)
			if sv.accepted != v.accepted {
				cls := c04Class(v.why + sv.why)
				res.Violate(c04Key("C04/verdict-depends-on-split/"+cls, diverged), "%s\n  as transaction of the history: accepted=%v %s\n  as one intent on an empty datastore: accepted=%v %s", where, v.accepted, v.why, sv.accepted, sv.why)
			}
		}
		if v.accepted {
			var cerr error
			if apiCall(res, "TransactionConfirm", func() { cerr = run.ds.TransactionConfirm(run.ctx, id) }) {
				return
			}
			if cerr != nil {
				res.Inconclusive("C04/confirm-error", "confirm of %s failed: %v", id, cerr)
				return
			}
			run.m = after
			D := run.ds.Dev.Snapshot()
			for k := range R {
				if _, ok := D[k]; !ok && strings.HasPrefix(k, "/cons/mand/") {
					diverged = "C04/wrong-verdict-after-presence-container-delete-diverged-running"
				}
			}
		}
	}
	res.Hash = core.HashOf(append([]string{fmt.Sprint(dl)}, run.canon...)...)
	res.NonTrivial = sawAccept && sawRefuse && sawContext
	if idx < 2 {
		res.Sample = map[string]any{"disabled": dl, "history": run.canon}
	}
}

// c04ContextDecided: the validity of the result differs from the validity of the transaction's intents taken alone,
// i.e. leaves of owners outside the transaction (or the removal of a shadowing value) decide.
func c04ContextDecided(before, after *model.Intents, step []stepIntent, disabled map[string]bool) bool {
	alone := model.NewIntents()
	for _, si := range step {
		if !si.Delete {
			alone.Set(si.Owner, &model.Intent{Prio: si.Prio, Vals: copyMap(si.Vals)})
		}
	}
	a := len(model.Validate(winnersFlat(alone), disabled)) == 0
	b := len(model.Validate(winnersFlat(after), disabled)) == 0
	return a != b
}

// c04Key: once the running mirror has diverged through the C01 presence container finding, every wrong verdict is that finding.
func c04Key(key, diverged string) string {
	if diverged != "" {
		return diverged
	}
	return key
}

// c04Repair adds what the context dependent leaves of cfg need (used to get valid configurations often enough).
func c04Repair(cfg map[string]string) {
	for i := 0; i < 3; i++ {
		vs := model.Validate(withKeyLeaves(cfg), nil)
		if len(vs) == 0 {
			return
		}
		for _, v := range vs {
			switch v.Class {
			case "mandatory":
				cfg[v.Path] = "r"
			case "must":
				if v.Path == "/cons/mst/b" {
					cfg["/cons/mst/a"] = "on"
				} else {
					cfg["/cons/mst/e"] = "true"
				}
			case "leafref":
				switch v.Path {
				case "/cons/lref-rel":
					cfg["/sys/name"] = cfg[v.Path]
				case "/cons/lrefs":
					for _, e := range llElemsOf(cfg[v.Path]) {
						cfg["/if[name="+e+"]/descr"] = "a"
					}
				default:
					cfg["/if[name="+cfg[v.Path]+"]/descr"] = "a"
				}
			}
		}
	}
}

func withKeyLeaves(cfg map[string]string) map[string]string {
	in := &model.Intent{Prio: 1, Vals: cfg}
	return in.Expanded()
}

// partitionCase: the second sentence of the property taken literally. A drawn configuration is split into 2-4 intents with
// drawn pairwise distinct priorities, lower-precedence intents additionally carry shadowed values (valid or invalid) for
// leaves another intent rules; all intents go to an EMPTY datastore in ONE transaction (dry-run). The verdict must be the
// validity of the merge, and equal to the verdict for the merge submitted as one intent.
func (c *c04) partitionCase(w *core.Worker, idx int, rng *core.Rng, res *core.CaseResult, disabled map[string]bool, dl []string, val *config.Validation) {
	reps := 8
	if w.Tier == "thorough" {
		reps = 14
	}
	var canon []string
	sawAccept, sawRefuse, sawShadowedBad := false, false, false
	res.Tracef("partition mode; disabled validators: %v", dl)
	for rep := 0; rep < reps && len(res.Findings) == 0; rep++ {
		G := map[string]string{}
		c04DrawContent(rng, G, 4+rng.Intn(9))
		if rng.Chance(2, 3) {
			c04Repair(G)
		}
		k := 2 + rng.Intn(3)
		owners := []string{"pa", "pb", "pc", "pd"}[:k]
		prios := []int32{}
		taken := map[int32]bool{}
		for len(prios) < k {
			p := int32(5 + rng.Intn(90))
			if !taken[p] {
				taken[p] = true
				prios = append(prios, p)
			}
		}
		sort.Slice(prios, func(i, j int) bool { return prios[i] < prios[j] }) // intent 0 has the best precedence
		vals := make([]map[string]string, k)
		for i := range vals {
			vals[i] = map[string]string{}
		}
		shadowBad := false
		for _, p := range sortedKeys(G) {
			j := rng.Intn(k)
			vals[j][p] = G[p]
			// shadowed definitions in intents of lower precedence
			for j2 := j + 1; j2 < k; j2++ {
				if !rng.Chance(1, 3) {
					continue
				}
				for _, l := range consPool {
					if l.path != p {
						continue
					}
					isRange := p == "/sys/mtu" || p == "/cons/rng-s" || p == "/cons/rng-u" || strings.HasSuffix(p, "/vlan")
					if len(l.bad) > 0 && !isRange && rng.Chance(1, 2) {
						vals[j2][p] = l.bad[rng.Intn(len(l.bad))]
						shadowBad = true
					} else {
						vals[j2][p] = l.good[rng.Intn(len(l.good))]
					}
				}
			}
		}
		var step []stepIntent
		for i := 0; i < k; i++ {
			if len(vals[i]) == 0 {
				continue
			}
			step = append(step, stepIntent{Owner: owners[i], Prio: prios[i], Vals: vals[i], Kind: "part"})
		}
		if len(step) == 0 {
			continue
		}
		// the server must not depend on the order of the intents in the request either
		perm := rng.Perm(len(step))
		sh := make([]stepIntent, len(step))
		for i, pi := range perm {
			sh[i] = step[pi]
		}
		step = sh
		after := applyToModel(model.NewIntents(), step)
		R := winnersFlat(after)
		exp := model.Validate(R, disabled)
		dontCare := false
		if disabled["Range"] {
			for _, v := range model.Validate(R, nil) {
				if v.Class == "range" {
					dontCare = true
				}
			}
		}
		run := c.h.start(rng, res, false, false)
		out := run.set("p", step, nil, time.Minute, true)
		v := c04VerdictOf(out)
		run.close()
		canon = append(canon, stepString(step))
		res.Tracef("partition %d: %s", rep, stepString(step))
		if v.broken {
			if !out.panicked {
				res.Inconclusive("C04/no-verdict", "partition [%s]: %s", stepString(step), v.why)
			}
			return
		}
		res.Count("transactions", 1)
		res.Count("partitions", 1)
		where := fmt.Sprintf("partition [%s] on an empty datastore, disabled=%v\n  resulting configuration: %s", stepString(step), dl, model.SortedMap(withoutKeyLeaves(R)))
		if v.accepted {
			sawAccept = true
			res.Count("accepted", 1)
			if shadowBad {
				sawShadowedBad = true
				res.Count("accepted_with_invalid_shadowed_values", 1)
			}
		} else {
			sawRefuse = true
			res.Count("refused", 1)
			res.Count("refused:"+c04Class(v.why), 1)
		}
		if !dontCare {
			switch {
			case v.accepted && len(exp) > 0:
				res.Violate("C04/invalid-result-accepted/"+exp[0].Class, "%s\n  accepted although the result violates %v", where, exp)
			case !v.accepted && len(exp) == 0:
				res.Violate("C04/valid-result-refused/"+c04Class(v.why), "%s\n  refused although the result satisfies every enforced constraint: %s", where, v.why)
			}
		}
		sv := c.solo(res, R, val)
		if sv.broken {
			res.Inconclusive("C04/no-solo-verdict", "%s: %s", where, sv.why)
			return
		}
		res.Count("solo_comparisons", 1)
		if sv.accepted != v.accepted {
			res.Violate("C04/verdict-depends-on-split/"+c04Class(v.why+sv.why), "%s\n  as %d intents: accepted=%v %s\n  as one intent: accepted=%v %s", where, len(step), v.accepted, v.why, sv.accepted, sv.why)
		}
	}
	res.Hash = core.HashOf(append([]string{"partition", fmt.Sprint(dl)}, canon...)...)
	res.NonTrivial = sawAccept && sawRefuse && sawShadowedBad
}

// shadowCase: the first sentence of the property taken literally ("including values that become active only because a
// higher-precedence intent was removed"). Intent A (better precedence) holds a valid value of a leaf, intent B is then
// accepted with a value for the same leaf that is invalid by itself (shadowed, so the result is valid); then A goes away in
// one of five ways - delete, only-intended delete, dropping the leaf, re-prioritising behind B, or B moving in front of A -
// and the result, which now carries B's value, must be refused.
func (c *c04) shadowCase(w *core.Worker, idx int, rng *core.Rng, res *core.CaseResult, disabled map[string]bool, dl []string, val *config.Validation) {
	reps := 6
	if w.Tier == "thorough" {
		reps = 10
	}
	var canon []string
	sawRefuse, sawAccept := false, false
	res.Tracef("shadow-removal mode; disabled validators: %v", dl)
	var withBad []consLeaf
	for _, l := range consPool {
		if len(l.bad) > 0 && !(l.path == "/sys/mtu" || l.path == "/cons/rng-u") { // string-carried ranges are refused at conversion
			withBad = append(withBad, l)
		}
	}
	for rep := 0; rep < reps && len(res.Findings) == 0; rep++ {
		l := withBad[rng.Intn(len(withBad))]
		good := l.good[rng.Intn(len(l.good))]
		bad := l.bad[rng.Intn(len(l.bad))]
		extraA := map[string]string{l.path: good, "/sys/descr": "a"}
		extraB := map[string]string{l.path: bad}
		if rng.Chance(1, 2) {
			extraB["/cons/mst/e"] = "true"
		}
		pa, pb := int32(10+rng.Intn(10)), int32(30+rng.Intn(10))
		kind := []string{"delete", "orphan", "drop-leaf", "reprio-A-behind-B", "reprio-B-before-A", "top-two-leave-together"}[rng.Intn(6)]
		run := c.h.start(rng, res, false, false)
		script := [][]stepIntent{
			{{Owner: "oa", Prio: pa, Vals: extraA, Kind: "create"}},
			{{Owner: "ob", Prio: pb, Vals: extraB, Kind: "create"}},
		}
		var last []stepIntent
		switch kind {
		case "delete":
			last = []stepIntent{{Owner: "oa", Prio: pa, Delete: true, Kind: "delete"}}
		case "orphan":
			// ob must cover every leaf of oa, or something stays unmanaged
			script[1][0].Vals["/sys/descr"] = "b"
			last = []stepIntent{{Owner: "oa", Prio: pa, Delete: true, Orphan: true, Kind: "orphan"}}
		case "drop-leaf":
			last = []stepIntent{{Owner: "oa", Prio: pa, Vals: map[string]string{"/sys/descr": "a"}, Kind: "shrink"}}
		case "reprio-A-behind-B":
			last = []stepIntent{{Owner: "oa", Prio: pb + 20, Vals: copyMap(extraA), Kind: "reprio"}}
		case "reprio-B-before-A":
			last = []stepIntent{{Owner: "ob", Prio: pa - 5, Vals: copyMap(script[1][0].Vals), Kind: "reprio"}}
		case "top-two-leave-together":
			// two intents hold the leaf above the shadowed one and give it up in ONE transaction (one is deleted, the other
			// shrinks): the third, so far invisible value becomes the active one
			second := int32(pa + 3)
			script = append(script, []stepIntent{{Owner: "oc", Prio: second, Vals: map[string]string{l.path: good, "/sys/name": "r1"}, Kind: "create"}})
			last = []stepIntent{{Owner: "oa", Prio: pa, Delete: true, Kind: "delete"}, {Owner: "oc", Prio: second, Vals: map[string]string{"/sys/name": "r1"}, Kind: "shrink"}}
		}
		script = append(script, last)
		ok := true
		for i, step := range script {
			after := applyToModel(run.m, step)
			R := winnersFlat(after)
			exp := model.Validate(R, disabled)
			dontCare := false
			if disabled["Range"] {
				for _, v := range model.Validate(R, nil) {
					if v.Class == "range" {
						dontCare = true
					}
				}
			}
			id := run.nextID()
			out := run.set(id, step, nil, time.Minute, false)
			v := c04VerdictOf(out)
			canon = append(canon, stepString(step))
			res.Tracef("scenario %d (%s) step %d: %s", rep, kind, i, stepString(step))
			if v.broken {
				if !out.panicked {
					res.Inconclusive("C04/no-verdict", "%s: %s", stepString(step), v.why)
				}
				run.close()
				return
			}
			res.Count("transactions", 1)
			where := fmt.Sprintf("shadow-removal scenario (%s), step %d [%s] disabled=%v\n  resulting configuration: %s\n  state before: %s", kind, i, stepString(step), dl, model.SortedMap(withoutKeyLeaves(R)), run.m)
			if v.accepted {
				sawAccept = true
				res.Count("accepted", 1)
			} else {
				sawRefuse = true
				res.Count("refused", 1)
				res.Count("refused:"+c04Class(v.why), 1)
			}
			if !dontCare {
				switch {
				case v.accepted && len(exp) > 0:
					res.Violate("C04/invalid-result-accepted/"+exp[0].Class, "%s\n  accepted although the result violates %v", where, exp)
				case !v.accepted && len(exp) == 0:
					res.Violate("C04/valid-result-refused/"+c04Class(v.why), "%s\n  refused although the result satisfies every enforced constraint: %s", where, v.why)
				}
			}
			if i == 2 {
				res.Count("shadow_removals:"+kind, 1)
			}
			if !v.accepted || len(res.Findings) > 0 {
				ok = false
				break
			}
			if err := run.ds.TransactionConfirm(run.ctx, id); err != nil {
				res.Inconclusive("C04/confirm-error", "%v", err)
				run.close()
				return
			}
			run.m = after
		}
		_ = ok
		run.close()
	}
	res.Hash = core.HashOf(append([]string{"shadow", fmt.Sprint(dl)}, canon...)...)
	res.NonTrivial = sawAccept && sawRefuse
}
