package checks

import (
	"fmt"
	"sort"
	"strings"

	"verifharness/internal/core"
	"verifharness/internal/fixture"
	"verifharness/internal/model"

	sdcpb "github.com/sdcio/sdc-protos/sdcpb"
)

// C08: at most one case of a choice is ever configured.

type c08 struct {
	h *hist
}

func init() { core.Register(&c08{}) }

func (c *c08) ID() string    { return "C08" }
func (c *c08) Level() string { return "exploration" }
func (c *c08) NumCases(tier string) int {
	if tier == "thorough" {
		return 8000
	}
	return 400
}
func (c *c08) Rule() string {
	return "one case = one PRNG transaction history (as C01) over the members of three choices - top level with explicit cases whose names differ from their members (alpha-case{alpha, alpha-c}, alpha-b-case{alpha-b}, gamma-case{presence container gamma}) and a shorthand case (delta), a choice inside list entries (svc[id=s1], svc[id=s10]: l2{vlan, vlan-name} / l3{vrf}), every second case additionally the choice nested in case l3 (ip4 / ip6) - plus non-members whose names extend a member's name (alpha-beta, other, descr); several owners with distinct priorities populate different cases (each single intent stays within one case per choice instance), 1-3 intents per transaction, added / changed / re-prioritised / removed in any order. After every committed transaction the device configuration is projected on the choices: per choice instance at most one case has nodes, it is the case of the best-priority contribution among live intents, members of that case carry the ruling values, non-members follow the plain winner rule. distinct = request sequence; non-trivial = the winning case of some choice instance changed at least once"
}
func (c *c08) Assumptions() []string {
	return []string{
		"case membership is decided by exact path-element match against the hand-written choice table (cross-checked against the YANG)",
		"a change of the winning case must leave no node of the previous case on the device after the same transaction (deletes are part of the same payload)",
	}
}
func (c *c08) Setup(w *core.Worker) error {
	fixture.Quiet()
	env, err := fixture.NewEnv(w.Scratch)
	if err != nil {
		return err
	}
	c.h = &hist{env: env, owners: []string{"oa", "ob", "oc", "od"}}
	return nil
}

// oneCasePerIntent drops leaves so that the intent stays within one case per choice instance.
func oneCasePerIntent(vals map[string]string) {
	for _, cd := range choiceDefs {
		chosen := map[string]string{}
		for _, k := range sortedKeys(vals) {
			inst, cn := cd.member(k)
			if inst == "" {
				continue
			}
			if c0, ok := chosen[inst]; !ok {
				chosen[inst] = cn
			} else if c0 != cn {
				delete(vals, k)
			}
		}
	}
	// the nested choice only exists inside case l3: an intent in case l2 must not carry ip4/ip6 (covered: they are l3 members of "kind")
}

func (c *c08) RunCase(w *core.Worker, idx int, seed uint64, res *core.CaseResult) {
	rng := core.NewRng(seed)
	nested := idx%2 == 1
	c.h.pool = append([]LeafDef{}, poolChoice...)
	if nested {
		c.h.pool = append(c.h.pool, poolChoiceNested...)
	}
	run := c.h.start(rng, res, false, false)
	defer run.close()
	steps := 10
	if w.Tier == "thorough" {
		steps = 18
	}
	changed := false
	prevActive := map[string]string{}
	taint := map[string]bool{}          // choice instances that hold legitimately orphaned nodes
	mustGo := map[string]bool{}         // orphaned nodes of a case that lost against a live intent at the time of the orphan delete
	lostByPresence := map[string]bool{} // paths the device lost through the delete of their presence container (C01 finding)
	for s := 0; s < steps && !c08Stop(res); s++ {
		step := run.genStep(3)
		for i := range step {
			if !step[i].Delete {
				oneCasePerIntent(step[i].Vals)
				if len(step[i].Vals) == 0 {
					step[i].Vals = map[string]string{"/ch/other": "o1"}
				}
			}
		}
		res.Tracef("step %d: %s", s, stepString(step))
		orphanedBefore := map[string]bool{}
		for k := range run.m.Orphaned {
			orphanedBefore[k] = true
		}
		out, ok := run.commit(step)
		if !ok {
			break
		}
		if w.Verbose {
			res.Tracef("   payload: %s", fixture.PayloadKey(out.rsp.GetUpdate(), out.rsp.GetDelete()))
		}
		where := fmt.Sprintf("after step %d [%s] (payload: %s)", s, stepString(step), fixture.PayloadKey(out.rsp.GetUpdate(), out.rsp.GetDelete()))
		W := run.m.Winners()
		active := resolveChoices(run.m, W)
		for k, v := range active {
			if pv, ok := prevActive[k]; ok && pv != v {
				changed = true
			}
		}
		prevActive = active
		D := run.ds.Dev.Snapshot()
		// only-intended deletes: the nodes stay on the device as unmanaged configuration. If, when an intent is orphaned,
		// a live intent holds ANOTHER case of the same choice instance, that case is the one "holding the highest-precedence
		// contribution among live intents" and the orphaned nodes have to go in that transaction. Otherwise the orphaned nodes
		// stay legitimately; no live intent speaks for them any more and what a later case change owes them is not stated:
		// the instance is not judged for exclusivity from then on.
		for k := range run.m.Orphaned {
			if orphanedBefore[k] {
				continue
			}
			for _, cd := range choiceDefs {
				if inst, cn := cd.member(k); inst != "" {
					key := inst + "#" + cd.name
					if active[key] != "" && active[key] != cn && !taint[key] {
						mustGo[k] = true
					} else {
						taint[key] = true
					}
				}
			}
		}
		for k := range mustGo {
			if !run.m.Orphaned[k] {
				delete(mustGo, k)
			}
		}
		// cases present per choice instance
		present := map[string]map[string]bool{}
		for k := range D {
			for _, cd := range choiceDefs {
				if cd.within != "" && !nested {
					continue
				}
				if inst, cn := cd.member(k); inst != "" {
					key := inst + "#" + cd.name
					if present[key] == nil {
						present[key] = map[string]bool{}
					}
					present[key][cn] = true
				}
			}
		}
		for key, cs := range present {
			if taint[key] {
				res.Count("instances_not_judged_after_orphan", 1)
				continue
			}
			if len(cs) > 1 {
				names := []string{}
				for n := range cs {
					names = append(names, n)
				}
				sort.Strings(names)
				feat := c08Feature(key, nested)
				res.Violate("C08/nodes-of-several-cases-on-device"+feat, "%s: choice %s has nodes of the cases %v on the device (winning case: %q)\n  model: %s", where, key, names, active[key], run.m)
			}
		}
		for k, wv := range W {
			if !isChoicePath(k) {
				continue
			}
			if dv, ok := D[k]; !ok {
				feat := c08Feature(k, nested)
				if feat == "" && (c08UnderDeletedPresence(k, out.rsp.GetDelete()) || lostByPresence[k]) {
					feat = "/removed-by-presence-container-delete"
					lostByPresence[k] = true
				}
				res.Violate("C08/node-of-winning-case-missing"+feat, "%s: device lacks %s (ruling %s p%d = %s)\n  model: %s", where, k, wv.Owner, wv.Prio, wv.Value, run.m)
			} else if delete(lostByPresence, k); dv != wv.Value {
				res.Violate("C08/wrong-value"+c08Feature(k, nested), "%s: device has %s=%s, ruling %s p%d says %s\n  model: %s", where, k, dv, wv.Owner, wv.Prio, wv.Value, run.m)
			}
		}
		for k, dv := range D {
			if !isChoicePath(k) {
				continue
			}
			if _, ok := W[k]; ok {
				continue
			}
			if run.m.Orphaned[k] {
				if mustGo[k] {
					okey := "C08/node-of-losing-case-on-device/orphaned-intent" + c08Feature(k, nested)
					if c08Feature(k, nested) == "/nested-choice" {
						okey = "C08/node-of-losing-case-on-device/nested-choice"
					}
					res.Violate(okey, "%s: device still has %s=%s of an intent that was removed (only-intended) while a live intent holds another case\n  model: %s", where, k, dv, run.m)
				}
				continue
			}
			losing, tainted := false, false
			for _, cd := range choiceDefs {
				if inst, cn := cd.member(k); inst != "" && active[inst+"#"+cd.name] != "" && active[inst+"#"+cd.name] != cn {
					losing = true
					tainted = tainted || taint[inst+"#"+cd.name]
				}
			}
			if losing && tainted {
				continue
			}
			if losing {
				res.Violate("C08/node-of-losing-case-on-device"+c08Feature(k, nested), "%s: device still has %s=%s, which belongs to a case that does not win\n  model: %s", where, k, dv, run.m)
			} else if presenceContainers[k] && hasDescendant(D, k) {
				// a presence container that holds a node exists by necessity
			} else {
				res.Violate("C08/stale-node", "%s: device still has %s=%s although no live intent defines it\n  model: %s", where, k, dv, run.m)
			}
		}
		res.Count("transactions", 1)
		res.Count("choice_instances_checked", len(active))
	}
	res.Hash = core.HashOf(append([]string{fmt.Sprint(nested)}, run.canon...)...)
	res.NonTrivial = changed
	if idx < 2 {
		res.Sample = map[string]any{"nested": nested, "history": run.canon}
	}
}

// c08Feature names the schema shape a finding is about: the choice of a list entry, or - when members of the
// choice nested in case l3 are part of the pool - the nested choice, whose members decide about the outer case as well.
func c08Feature(path string, nested bool) string {
	if !strings.HasPrefix(path, "/svc[") {
		return ""
	}
	if nested {
		return "/nested-choice"
	}
	return "/choice-inside-list-entry"
}

// c08Stop: a history ends at the first finding, except for the classes that are decided by the shape of the schema
// (they recur at every later step of the history and would only hide what else the history has to show).
func c08Stop(res *core.CaseResult) bool {
	for _, f := range res.Findings {
		if strings.HasSuffix(f.Key, "/nested-choice") || strings.HasSuffix(f.Key, "/removed-by-presence-container-delete") {
			continue
		}
		return true
	}
	return false
}

// c08UnderDeletedPresence: the payload deletes the presence container gamma / delta above the path (the C01 finding
// "owned child removed by presence container delete" seen through a choice).
func c08UnderDeletedPresence(path string, dels []*sdcpb.Path) bool {
	for _, d := range dels {
		dp := model.FromPb(d).String()
		if (dp == "/ch/gamma" || dp == "/ch/delta") && strings.HasPrefix(path, dp+"/") {
			return true
		}
	}
	return false
}
