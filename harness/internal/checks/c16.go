package checks

import (
	"context"
	"errors"
	"fmt"
	"os"
	"runtime"
	"sort"
	"strings"
	"sync"
	"sync/atomic"
	"time"

	"github.com/anishathalye/porcupine"

	"github.com/sdcio/data-server/pkg/config"
	"github.com/sdcio/data-server/pkg/datastore"
	"github.com/sdcio/data-server/pkg/datastore/types"
	"github.com/sdcio/data-server/pkg/server"
	sdcpb "github.com/sdcio/sdc-protos/sdcpb"

	"verifharness/internal/core"
	"verifharness/internal/fixture"
	"verifharness/internal/model"
	"verifharness/internal/sched"
)

// C16: confirm, cancel and timeout resolve each transaction exactly once.
// Monitor 1: controlled scheduler over the yield points of the transaction manager (stateless DFS over choice vectors).
// Monitor 2: free-running stress with PRNG delays at the same points, history checked for linearizability (c16_stress.go).

type c16 struct {
	env       *fixture.Env
	scenarios [][]string
}

func init() { core.Register(&c16{}) }

var c16Ops = []string{"confirm", "confirm-other", "cancel", "cancel-other", "expiry", "setB", "setA"}

func (c *c16) ID() string      { return "C16" }
func (c *c16) Level() string   { return "exploration" }
func (c *c16) WantsRace() bool { return true }

func (c *c16) buildScenarios() {
	if c.scenarios != nil {
		return
	}
	n := len(c16Ops)
	for mask := 1; mask < 1<<n; mask++ {
		var ops []string
		for i := 0; i < n; i++ {
			if mask&(1<<i) != 0 {
				ops = append(ops, c16Ops[i])
			}
		}
		if len(ops) <= 3 {
			c.scenarios = append(c.scenarios, ops)
		}
	}
	sort.SliceStable(c.scenarios, func(i, j int) bool { return len(c.scenarios[i]) < len(c.scenarios[j]) })
}

func (c *c16) stressCases(tier string) int {
	if tier == "thorough" {
		return 4000
	}
	return 160
}

func (c *c16) NumCases(tier string) int {
	c.buildScenarios()
	return len(c.scenarios) + c.stressCases(tier)
}

func (c *c16) schedCap(tier string, nops int) int {
	if tier == "thorough" {
		if nops <= 2 {
			return 4000
		}
		// (a schedule of three operations with an expiry takes ~0.7 s of real timer waits: 800 of them are ~10 minutes per
		// scenario; with the former 4000 a scenario ran for 45 minutes)
		return 800
	}
	if nops <= 2 {
		return 300
	}
	return 30
}

func (c *c16) Rule() string {
	return "monitor 1 (controlled scheduler): one case = one set of up to three concurrent operations out of {Confirm(id), Confirm(other id), Cancel(id), Cancel(other id), timer expiry, competing Set} on one open transaction of a real datastore; the operations park at the verif yield points (entry of Confirm/Cancel, before/after every transaction-manager lock, timer fired/stopped, registration attempt of the competing Set) and a stateless depth-first search over choice vectors releases one at a time; every executed schedule is judged (exactly-one outcome, outcome agrees with the answers, no refusal merely because a Set waits, no panic, no deadlock). monitor 2 (stress): 3-6 free-running clients with PRNG delays at the same points, the recorded call/return history is checked with porcupine against the sequential slot model. distinct = scenario + executed trace of released points; non-trivial = at least two participants were runnable at some step (a real choice existed)"
}

func (c *c16) Assumptions() []string {
	return []string{
		"interleavings are enumerated at the granularity of the yield points inserted under build tag verif; a goroutine blocked on a real mutex stays runnable and is waited for 40 ms, which only affects which interleaving is produced, never the verdict",
		"the transaction under test uses a 1 ms timeout when expiry takes part (the fired timer parks at timer.fired) and 1 h otherwise",
		"rollbacks are counted at the recording device (one Set call per applied rollback transaction)",
		"a death of the worker process with a Go panic message is a violation (the timer goroutine is started by the code under test and cannot be recovered)",
	}
}

func (c *c16) Setup(w *core.Worker) error {
	fixture.Quiet()
	c.buildScenarios()
	env, err := fixture.NewEnv(w.Scratch)
	c.env = env
	return err
}

func (c *c16) CrashKey(tail string) (string, bool) {
	switch {
	case strings.Contains(tail, "CASE-WATCHDOG "):
		// a case that does not end within the case watchdog (5 minutes; a case takes seconds) hangs on the locks of the
		// transaction manager / datastore: the deadlock clause of the statement
		return "C16/deadlock/case-does-not-end", true
	case strings.Contains(tail, "close of closed channel"):
		return "C16/panic-close-of-closed-channel", true
	case strings.Contains(tail, "panic:"), strings.Contains(tail, "fatal error:"):
		first := tail
		if i := strings.IndexByte(first, '\n'); i > 0 {
			first = first[:i]
		}
		return "C16/crash:" + first, true
	}
	return "", false
}

type opWindow struct {
	call, ret int64
}

type c16Outcome struct {
	windows   map[string]*opWindow
	endStamp  int64
	nameDev   string
	nameRb    int
	results   map[string]string // op -> error string ("<nil>" on success)
	rollbacks int
	finalDev  string
	finalInt  string
	bApplied  bool
	panics    []string
}

func (o *c16Outcome) String() string {
	ks := make([]string, 0, len(o.results))
	for k := range o.results {
		ks = append(ks, k)
	}
	sort.Strings(ks)
	var b strings.Builder
	for _, k := range ks {
		fmt.Fprintf(&b, "%s=%s ", k, o.results[k])
	}
	fmt.Fprintf(&b, "rollbacks=%d dev=%s intended=%s", o.rollbacks, o.finalDev, o.finalInt)
	return b.String()
}

func errClass(err error) string {
	switch {
	case err == nil:
		return "<nil>"
	case errors.Is(err, datastore.ErrDatastoreLocked):
		return "LOCKED"
	}
	return "ERR(" + err.Error() + ")"
}

// runSchedule executes ops under the choice vector on a fresh datastore.
func (c *c16) runSchedule(ops []string, choices []int, res *core.CaseResult) (*c16Outcome, *sched.Result, []sched.Event) {
	ds := c.env.NewDS(fixture.DSOpts{})
	stuck := false
	defer func() {
		if stuck {
			// the operations hold the locks of the datastore for ever: do not touch it again (Stop() would block as well)
			ds.Abandon()
			return
		}
		ds.Close()
	}()
	ctx := context.Background()
	mk := func(owner, path, val string, prio int32) []*types.TransactionIntent {
		req := &sdcpb.TransactionIntent{Intent: owner, Priority: prio, Update: []*sdcpb.Update{{Path: model.Parse(path).ToPb(), Value: model.MkTv(val)}}}
		ti, err := ds.SdcpbTransactionIntentToInternalTI(ctx, req)
		if err != nil {
			panic(err)
		}
		return []*types.TransactionIntent{ti}
	}
	// baseline: intent oa = v0, confirmed
	if _, err := ds.TransactionSet(ctx, "base", mk("oa", "/sys/descr", "v0", 10), nil, time.Hour, false); err != nil {
		res.Inconclusive("C16/setup", "baseline set failed: %v", err)
		return nil, nil, nil
	}
	if err := ds.TransactionConfirm(ctx, "base"); err != nil {
		res.Inconclusive("C16/setup", "baseline confirm failed: %v", err)
		return nil, nil, nil
	}
	withExpiry := false
	for _, o := range ops {
		if o == "expiry" {
			withExpiry = true
		}
	}
	s := sched.New("ds.confirm", "ds.cancel", "ds.set", "tm.", "tx.confirm", "timer.")
	s.ExemptSelf()
	var clk atomic.Int64
	s.Clock = func() int64 { return clk.Add(1) }
	to := time.Hour
	if withExpiry {
		to = time.Millisecond
		s.Enable() // the fired timer must park
	}
	if _, err := ds.TransactionSet(ctx, "A", mk("oa", "/sys/descr", "v1", 10), nil, to, false); err != nil {
		s.Disable(nil)
		res.Inconclusive("C16/setup", "set A failed: %v", err)
		return nil, nil, nil
	}
	setsBefore := ds.Dev.NumSets()
	if !withExpiry {
		s.Enable()
	}
	out := &c16Outcome{results: map[string]string{}, windows: map[string]*opWindow{}}
	var mu sync.Mutex
	nOps := 0
	for _, o := range ops {
		if o == "expiry" {
			continue
		}
		o := o
		nOps++
		s.Go(o, func() {
			var err error
			win := &opWindow{call: clk.Add(1)}
			mu.Lock()
			out.windows[o] = win
			mu.Unlock()
			defer func() {
				mu.Lock()
				win.ret = clk.Add(1)
				mu.Unlock()
			}()
			defer func() {
				if r := recover(); r != nil {
					buf := make([]byte, 4096)
					n := runtime.Stack(buf, false)
					mu.Lock()
					out.panics = append(out.panics, fmt.Sprintf("%s: %v\n%s", o, r, buf[:n]))
					out.results[o] = "PANIC"
					mu.Unlock()
				}
			}()
			switch o {
			case "confirm":
				err = ds.TransactionConfirm(ctx, "A")
			case "confirm-other":
				err = ds.TransactionConfirm(ctx, "Z")
			case "cancel":
				err = ds.TransactionCancel(ctx, "A")
			case "cancel-other":
				err = ds.TransactionCancel(ctx, "Z")
			case "setB", "setA":
				// a competing TransactionSet; setA re-uses the id of the open transaction (ids are client supplied)
				cctx, cancel := context.WithTimeout(ctx, 450*time.Millisecond)
				defer cancel()
				var rsp *sdcpb.TransactionSetResponse
				id, owner, val := "B", "ob", "nb"
				if o == "setA" {
					id, owner, val = "A", "oc", "nc"
				}
				rsp, err = ds.TransactionSet(cctx, id, mk(owner, "/sys/name", val, 20), nil, time.Hour, false)
				if err == nil && rsp != nil {
					mu.Lock()
					out.bApplied = true
					mu.Unlock()
				}
			}
			mu.Lock()
			out.results[o] = errClass(err)
			mu.Unlock()
		})
	}
	sr := s.Run(nOps, choices, 5*time.Second)
	if sr.Stuck {
		buf := make([]byte, 1<<16)
		n := runtime.Stack(buf, true)
		out.panics = append(out.panics, "STUCK\n"+string(buf[:n]))
		stuck = true
		return out, sr, s.Events
	}
	// quiescence: wait (bounded) until transaction A is resolved or clearly stays open
	if withExpiry {
		deadline := time.Now().Add(3 * time.Second)
		for time.Now().Before(deadline) {
			if id, _ := ds.VerifOpenTransaction(); id != "A" {
				break
			}
			time.Sleep(time.Millisecond)
		}
	}
	time.Sleep(2 * time.Millisecond)
	mu.Lock()
	bApplied := out.bApplied
	mu.Unlock()
	_ = bApplied
	// a rollback of A is a Set call after A's own apply that writes (or deletes) A's leaf; B only touches /sys/name
	for i, rec := range ds.Dev.AllSets() {
		if i < setsBefore {
			continue
		}
		touches := false
		for _, u := range rec.Updates {
			if pathString(u.GetPath()) == "/sys/descr" {
				touches = true
			}
		}
		for _, d := range rec.Deletes {
			if model.FromPb(d).Covers(model.Parse("/sys/descr")) {
				touches = true
			}
		}
		if touches {
			out.rollbacks++
		}
	}
	out.endStamp = clk.Add(1)
	out.finalDev = ds.Dev.Snapshot()["/sys/descr"]
	out.nameDev = ds.Dev.Snapshot()["/sys/name"]
	for i, rec := range ds.Dev.AllSets() {
		if i < setsBefore {
			continue
		}
		seen := false
		for _, d := range rec.Deletes {
			if model.FromPb(d).Covers(model.Parse("/sys/name")) {
				seen = true
			}
		}
		if seen {
			out.nameRb++
		}
	}
	d, _ := fixture.DumpIntended(ctx, c.env.Cache, ds.Name)
	im, _ := fixture.IntendedMap(d)
	out.finalInt = im["sys,descr|oa|10"]
	if id, _ := ds.VerifOpenTransaction(); id != "" {
		out.results["open-at-end"] = id
	}
	return out, sr, s.Events
}

// schedState is the state of the sequential specification used to judge one schedule.
type schedState struct {
	open string // "" | A1 | A2 | B
	a1   int    // 0 applied and open or kept, 2 rolled back
	a2   int    // 0 not applied, 1 applied, 2 rolled back
	b    int
}

type schedIn struct {
	op string
}

type schedObs struct {
	descr, name, open string
	descrRollbacks    int
	nameRollbacks     int
}

var c16SchedModel = porcupine.Model{
	Init: func() interface{} { return schedState{open: "A1"} },
	Step: func(state, input, output interface{}) (bool, interface{}) {
		st := state.(schedState)
		in := input.(schedIn)
		switch in.op {
		case "confirm", "cancel":
			out := output.(string)
			switch out {
			case "<nil>":
				switch st.open {
				case "A1":
					if in.op == "cancel" {
						st.a1 = 2
					}
				case "A2":
					if in.op == "cancel" {
						st.a2 = 2
					}
				default:
					return false, st
				}
				st.open = ""
				return true, st
			case "LOCKED":
				return true, st
			case "PROCESSING":
				// the addressed transaction is registered but not applied yet: only possible for the competing A2
				return true, st
			}
			return st.open != "A1" && st.open != "A2", st
		case "confirm-other", "cancel-other":
			return output.(string) != "<nil>", st
		case "setA", "setB":
			out := output.(string)
			if out == "<nil>" {
				if st.open != "" {
					return false, st
				}
				if in.op == "setA" {
					st.open, st.a2 = "A2", 1
				} else {
					st.open, st.b = "B", 1
				}
				return true, st
			}
			return true, st
		case "expire":
			if st.open == "A1" {
				st.open, st.a1 = "", 2
			}
			return true, st
		case "observe":
			obs := output.(schedObs)
			wantDescr, wantRb := "v1", 0
			if st.a1 == 2 {
				wantDescr, wantRb = "v0", 1
			}
			wantName, wantNameRb := "", 0
			switch {
			case st.a2 == 1:
				wantName = "nc"
			case st.b == 1:
				wantName = "nb"
			}
			if st.a2 == 2 {
				wantNameRb++
			}
			if st.b == 2 {
				wantNameRb++
			}
			wantOpen := ""
			switch st.open {
			case "A1", "A2":
				wantOpen = "A"
			case "B":
				wantOpen = "B"
			}
			ok := obs.descr == wantDescr && obs.descrRollbacks == wantRb && obs.name == wantName && obs.nameRollbacks == wantNameRb && obs.open == wantOpen
			return ok, st
		}
		return false, st
	},
	DescribeOperation: func(input, output interface{}) string { return fmt.Sprintf("%s->%v", input.(schedIn).op, output) },
}

func (c *c16) judge(ops []string, out *c16Outcome, sr *sched.Result, evs []sched.Event, res *core.CaseResult) {
	has := func(op string) bool {
		for _, o := range ops {
			if o == op {
				return true
			}
		}
		return false
	}
	where := fmt.Sprintf("ops=%v schedule=%v\n  outcome: %s name=%q nameRollbacks=%d", ops, sr.Trace, out, out.nameDev, out.nameRb)
	for _, p := range out.panics {
		if strings.HasPrefix(p, "STUCK") {
			res.Violate("C16/deadlock", "operations neither finished nor reached a yield point for 5 s\n  %s\n%s", where, p)
		} else {
			res.Violate("C16/panic-in-operation", "%s\n  %s", p, where)
		}
	}
	if len(out.panics) > 0 {
		return
	}
	// the effect of an operation on the slot happens under the transaction manager's lock: its window starts
	// when it was released from the point after taking that lock (or from its last registration attempt)
	lockedAt := map[string]int64{}
	var expCall, expRet, expGid int64
	for _, e := range evs {
		if e.Label == "timer@timer.fired" {
			expGid = e.Gid // the goroutine of the fired timer (other timer goroutines were merely stopped)
		}
	}
	for _, e := range evs {
		i := strings.IndexByte(e.Label, '@')
		who, pt := e.Label[:i], e.Label[i+1:]
		switch {
		case who == "timer":
			if e.Gid != expGid {
				continue
			}
			switch pt {
			case "timer.fired", "tm.rollback.beforeLock", "tm.rollback.locked":
				expCall = e.T
			case "timer.exit":
				expRet = e.T
			}
		case pt == "tm.confirm.locked" || pt == "tm.cancel.locked" || pt == "ds.set.register":
			lockedAt[who] = e.T
		}
	}
	var hist []porcupine.Operation
	cid := 0
	for op, w := range out.windows {
		call := w.call
		if t, ok := lockedAt[op]; ok && t > call {
			call = t
		}
		ret := w.ret
		if ret == 0 {
			ret = out.endStamp
		}
		o := out.results[op]
		if strings.Contains(o, "still being processed") {
			o = "PROCESSING"
		} else if strings.HasPrefix(o, "ERR(") {
			o = "ERR"
		}
		cid++
		hist = append(hist, porcupine.Operation{ClientId: cid, Input: schedIn{op}, Output: o, Call: call, Return: ret})
	}
	if has("expiry") {
		if expCall == 0 {
			expCall = 1
		}
		if expRet == 0 {
			expRet = out.endStamp
		}
		cid++
		hist = append(hist, porcupine.Operation{ClientId: cid, Input: schedIn{"expire"}, Output: "", Call: expCall, Return: expRet})
	}
	obs := schedObs{descr: out.finalDev, name: out.nameDev, open: out.results["open-at-end"], descrRollbacks: out.rollbacks, nameRollbacks: out.nameRb}
	cid++
	hist = append(hist, porcupine.Operation{ClientId: cid, Input: schedIn{"observe"}, Output: obs, Call: out.endStamp + 1, Return: out.endStamp + 2})
	r, _ := porcupine.CheckOperationsVerbose(c16SchedModel, hist, 10*time.Second)
	// the competing Set carries the harness' own deadline (it would otherwise wait forever for a transaction that stays
	// open); on a loaded machine the deadline can fire after the Set got the datastore and wrote to the device. That is a
	// wall-clock artefact of the harness, not a schedule of the transaction manager: inconclusive.
	for _, sop := range []string{"setB", "setA"} {
		if e := out.results[sop]; r == porcupine.Illegal && strings.Contains(e, "deadline exceeded") && !strings.Contains(e, "still being processed") && (out.nameDev == "nb" || out.nameDev == "nc") {
			res.Inconclusive("C16/competing-set-hit-the-harness-deadline-midway", "%s", where)
			return
		}
	}
	if r == porcupine.Illegal {
		key := "C16/outcome-has-no-sequential-explanation"
		switch {
		case out.results["confirm"] == "<nil>" && out.rollbacks > 0 && out.results["cancel"] != "<nil>":
			key = "C16/confirmed-transaction-rolled-back"
		case out.rollbacks > 1:
			key = "C16/rolled-back-twice"
		case out.results["confirm-other"] == "<nil>" || out.results["cancel-other"] == "<nil>":
			key = "C16/foreign-id-accepted"
		}
		desc := []string{}
		for _, h := range hist {
			desc = append(desc, fmt.Sprintf("[%d,%d] %s->%v", h.Call, h.Return, h.Input.(schedIn).op, h.Output))
		}
		sort.Strings(desc)
		res.Violate(key, "answers, rollbacks and final state of this schedule cannot be explained by any order of the operations on the transaction slot\n  %s\n  history: %s", where, strings.Join(desc, " | "))
	} else if r == porcupine.Unknown {
		res.Inconclusive("C16/checker-timeout", "%s", where)
	}
	if out.finalInt != out.finalDev {
		res.Violate("C16/intended-and-device-disagree", "device has %q, the intended store %q\n  %s", out.finalDev, out.finalInt, where)
	}
	// refused merely because a Set is waiting (other Confirm/Cancel calls legitimately hold the datastore lock for a moment)
	if has("setB") || has("setA") {
		for _, op := range []string{"confirm", "cancel"} {
			other := "cancel"
			if op == "cancel" {
				other = "confirm"
			}
			if out.results[op] == "LOCKED" && !has(other) && !has("confirm-other") && !has("cancel-other") {
				res.Violate("C16/refused-because-set-is-waiting", "%s for the open transaction was refused with ErrDatastoreLocked while only a competing TransactionSet was waiting\n  %s", op, where)
			}
		}
	}
}

func (c *c16) RunCase(w *core.Worker, idx int, seed uint64, res *core.CaseResult) {
	if idx >= len(c.scenarios) {
		if (idx-len(c.scenarios))%4 == 3 {
			c.runServerLevel(w, idx-len(c.scenarios), seed, res)
			return
		}
		c.runStress(w, idx-len(c.scenarios), seed, res)
		return
	}
	ops := c.scenarios[idx]
	capN := c.schedCap(w.Tier, len(ops))
	if w.Verbose && os.Getenv("VERIF_SCHED_CAP") != "" {
		fmt.Sscan(os.Getenv("VERIF_SCHED_CAP"), &capN)
	}
	res.Tracef("scenario %v (cap %d schedules)", ops, capN)
	stack := [][]int{{}}
	runs := 0
	outcomes := map[string]int{}
	traces := map[string]bool{}
	realChoice := false
	for len(stack) > 0 && runs < capN {
		ch := stack[len(stack)-1]
		stack = stack[:len(stack)-1]
		out, sr, evs := c.runSchedule(ops, ch, res)
		if out == nil {
			return
		}
		w.Progress()
		runs++
		tk := strings.Join(sr.Trace, ">")
		if !traces[tk] {
			traces[tk] = true
			c.judge(ops, out, sr, evs, res)
		}
		outcomes[out.String()]++
		for i := len(ch); i < len(sr.NOpts); i++ {
			if sr.NOpts[i] > 1 {
				realChoice = true
			}
			for alt := 1; alt < sr.NOpts[i]; alt++ {
				n := append(append([]int{}, ch...), make([]int, i-len(ch))...)
				n = append(n, alt)
				stack = append(stack, n)
			}
		}
		if w.Verbose {
			res.Tracef("  schedule %v -> %s", sr.Trace, out)
		}
		if len(res.Findings) > 8 {
			break
		}
	}
	res.Count("schedules_executed", runs)
	res.Count("distinct_traces", len(traces))
	res.Count("distinct_outcomes", len(outcomes))
	if len(stack) == 0 {
		res.Count("scenarios_enumerated_completely", 1)
	}
	res.Hash = core.HashOf(strings.Join(ops, "+"))
	res.NonTrivial = realChoice || len(ops) == 1
	oc := []string{}
	for k, v := range outcomes {
		oc = append(oc, fmt.Sprintf("%dx %s", v, k))
	}
	sort.Strings(oc)
	if len(ops) == 2 && (ops[0] == "confirm" || ops[0] == "cancel") {
		res.Sample = map[string]any{"ops": ops, "schedules": runs, "outcomes": oc}
	}
}

// PostProcess: the C16 binary is built with the race detector; data races are not part of the C16 statement, so reports are
// counted in the evidence and surfaced as inconclusive observations (they would explain an outcome the judge cannot).
func (c *c16) PostProcess(scratch string, agg *core.Aggregate) {
	reports := core.ParseRaceLogs(scratch, "github.com/sdcio/data-server/")
	agg.ExtraCounts["race_reports_distinct"] += len(reports)
	for _, r := range reports {
		agg.ExtraCounts["race_reports_total"] += r.Count
		text := r.Text
		if len(text) > 4000 {
			text = text[:4000]
		}
		agg.Extra = append(agg.Extra, core.Finding{Verdict: core.Inconclusive, Key: "C16/race-detector-report/" + r.Key, Detail: fmt.Sprintf("%d reports\n%s", r.Count, text)})
	}
}

// runServerLevel: the same slot seen through the gRPC handlers (pkg/server), where the server's own locks come on top of
// the datastore's. A transaction A is open; a competing TransactionSet B waits for the datastore (its client gives it a
// few seconds); then Confirm or Cancel of A arrives. The order of the answers decides, not their latency: B can only be
// answered with success after A was resolved, so the Confirm / Cancel must be answered before B is, it must succeed,
// and B must get the datastore afterwards. A Confirm / Cancel that is answered only after B gave up was held up by
// nothing but the waiting Set.
func (c *c16) runServerLevel(w *core.Worker, sidx int, seed uint64, res *core.CaseResult) {
	rng := core.NewRng(seed)
	ds := c.env.NewDS(fixture.DSOpts{})
	defer ds.Close()
	ctx := context.Background()
	srv := server.NewVerif(ctx, &config.Config{DefaultTransactionTimeout: time.Hour}, c.env.Schema, c.env.Cache, map[string]*datastore.Datastore{ds.Name: ds.Datastore})
	st := fixture.NewFakeStream[*sdcpb.GetDataResponse](ctx)
	defer st.Cancel()
	pctx := st.Context()
	mkReq := func(id, owner, path, val string, to time.Duration) *sdcpb.TransactionSetRequest {
		secs := int32(to / time.Second)
		return &sdcpb.TransactionSetRequest{DatastoreName: ds.Name, TransactionId: id, Timeout: &secs,
			Intents: []*sdcpb.TransactionIntent{{Intent: owner, Priority: 10, Update: []*sdcpb.Update{{Path: mustPb(path), Value: strTv(val)}}}}}
	}
	if _, err := srv.TransactionSet(pctx, mkReq("base", "oa", "/sys/descr", "v0", time.Hour)); err != nil {
		res.Inconclusive("C16/server/setup", "%v", err)
		return
	}
	if _, err := srv.TransactionConfirm(pctx, &sdcpb.TransactionConfirmRequest{DatastoreName: ds.Name, TransactionId: "base"}); err != nil {
		res.Inconclusive("C16/server/setup", "%v", err)
		return
	}
	rounds := 3
	kinds := []string{}
	for r := 0; r < rounds && len(res.Findings) == 0; r++ {
		idA, idB := fmt.Sprintf("A%d", r), fmt.Sprintf("B%d", r)
		if _, err := srv.TransactionSet(pctx, mkReq(idA, "oa", "/sys/descr", "a"+idA, time.Hour)); err != nil {
			res.Inconclusive("C16/server/setup", "TransactionSet %s: %v", idA, err)
			return
		}
		var clock atomic.Int64
		var bDone, opDone, gDone int64
		var bErr, opErr error
		var wg sync.WaitGroup
		bctx, bcancel := context.WithTimeout(pctx, 4*time.Second)
		wg.Add(1)
		go func() {
			defer wg.Done()
			_, bErr = srv.TransactionSet(bctx, mkReq(idB, "ob", "/sys/name", "b"+idB, time.Hour))
			bDone = clock.Add(1)
		}()
		// let B reach its wait (if it has not yet, the round is merely less interesting)
		time.Sleep(time.Duration(20+rng.Intn(60)) * time.Millisecond)
		kind := []string{"confirm", "cancel"}[rng.Intn(2)]
		kinds = append(kinds, kind)
		wg.Add(1)
		go func() {
			defer wg.Done()
			if kind == "confirm" {
				_, opErr = srv.TransactionConfirm(pctx, &sdcpb.TransactionConfirmRequest{DatastoreName: ds.Name, TransactionId: idA})
			} else {
				_, opErr = srv.TransactionCancel(pctx, &sdcpb.TransactionCancelRequest{DatastoreName: ds.Name, TransactionId: idA})
			}
			opDone = clock.Add(1)
		}()
		// a reader that only needs the server's datastore table
		wg.Add(1)
		go func() {
			defer wg.Done()
			srv.GetDataStore(pctx, &sdcpb.GetDataStoreRequest{Name: ds.Name})
			gDone = clock.Add(1)
		}()
		waited := make(chan struct{})
		go func() { wg.Wait(); close(waited) }()
		select {
		case <-waited:
		case <-time.After(30 * time.Second):
			bcancel()
			res.Violate("C16/server/deadlock", "%s of the open transaction %s, a waiting TransactionSet %s and a GetDataStore do not all return within 30 s (the waiting Set's client gave it 4 s)", kind, idA, idB)
			return
		}
		bcancel()
		res.Count("server_level_rounds", 1)
		where := fmt.Sprintf("round %d: A=%s open, Set %s waiting (4 s), then %s(%s): %s answered %v as number %d, Set answered %v as number %d, GetDataStore as number %d", r, idA, idB, kind, idA, kind, opErr, opDone, bErr, bDone, gDone)
		res.Tracef("%s", where)
		switch {
		case opErr != nil:
			res.Violate("C16/server/"+kind+"-of-the-open-transaction-fails-while-a-set-is-waiting", "%s", where)
		case bErr == nil && bDone < opDone:
			res.Violate("C16/server/waiting-set-answered-before-the-open-transaction-was-resolved", "%s", where)
		case bErr != nil && bDone < opDone:
			res.Violate("C16/server/"+kind+"-held-up-until-the-waiting-set-gave-up", "%s", where)
		case bErr != nil:
			res.Violate("C16/server/waiting-set-fails-although-the-datastore-became-free", "%s", where)
		}
		// resolve B for the next round
		if bErr == nil {
			if _, err := srv.TransactionConfirm(pctx, &sdcpb.TransactionConfirmRequest{DatastoreName: ds.Name, TransactionId: idB}); err != nil && len(res.Findings) == 0 {
				res.Violate("C16/server/confirm-of-the-next-transaction-fails", "%s; Confirm(%s): %v", where, idB, err)
			}
		}
	}
	res.Hash = core.HashOf(append([]string{"server-level", fmt.Sprint(sidx)}, kinds...)...)
	res.NonTrivial = true
}
