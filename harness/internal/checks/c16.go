package checks

import (
	"context"
	"errors"
	"fmt"
	"os"
	"runtime"
	"sort"
	"strings"
	"sync"
	"time"

	"github.com/sdcio/data-server/pkg/datastore"
	"github.com/sdcio/data-server/pkg/datastore/types"
	sdcpb "github.com/sdcio/sdc-protos/sdcpb"

	"verifharness/internal/core"
	"verifharness/internal/fixture"
	"verifharness/internal/model"
	"verifharness/internal/sched"
)

// C16: confirm, cancel and timeout resolve each transaction exactly once.
// Monitor 1: controlled scheduler over the yield points of the transaction manager (stateless DFS over choice vectors).
// Monitor 2: free-running stress with PRNG delays at the same points, history checked for linearizability (c16_stress.go).

type c16 struct {
	env       *fixture.Env
	scenarios [][]string
}

func init() { core.Register(&c16{}) }

var c16Ops = []string{"confirm", "confirm-other", "cancel", "cancel-other", "expiry", "setB"}

func (c *c16) ID() string      { return "C16" }
func (c *c16) Level() string   { return "exploration" }
func (c *c16) WantsRace() bool { return true }

func (c *c16) buildScenarios() {
	if c.scenarios != nil {
		return
	}
	n := len(c16Ops)
	for mask := 1; mask < 1<<n; mask++ {
		var ops []string
		for i := 0; i < n; i++ {
			if mask&(1<<i) != 0 {
				ops = append(ops, c16Ops[i])
			}
		}
		if len(ops) <= 3 {
			c.scenarios = append(c.scenarios, ops)
		}
	}
	sort.SliceStable(c.scenarios, func(i, j int) bool { return len(c.scenarios[i]) < len(c.scenarios[j]) })
}

func (c *c16) stressCases(tier string) int {
	if tier == "thorough" {
		return 4000
	}
	return 160
}

func (c *c16) NumCases(tier string) int {
	c.buildScenarios()
	return len(c.scenarios) + c.stressCases(tier)
}

func (c *c16) schedCap(tier string, nops int) int {
	if tier == "thorough" {
		return 4000
	}
	if nops <= 2 {
		return 400
	}
	return 60
}

func (c *c16) Rule() string {
	return "monitor 1 (controlled scheduler): one case = one set of up to three concurrent operations out of {Confirm(id), Confirm(other id), Cancel(id), Cancel(other id), timer expiry, competing Set} on one open transaction of a real datastore; the operations park at the verif yield points (entry of Confirm/Cancel, before/after every transaction-manager lock, timer fired/stopped, registration attempt of the competing Set) and a stateless depth-first search over choice vectors releases one at a time; every executed schedule is judged (exactly-one outcome, outcome agrees with the answers, no refusal merely because a Set waits, no panic, no deadlock). monitor 2 (stress): 3-6 free-running clients with PRNG delays at the same points, the recorded call/return history is checked with porcupine against the sequential slot model. distinct = scenario + executed trace of released points; non-trivial = at least two participants were runnable at some step (a real choice existed)"
}

func (c *c16) Assumptions() []string {
	return []string{
		"interleavings are enumerated at the granularity of the yield points inserted under build tag verif; a goroutine blocked on a real mutex stays runnable and is waited for 40 ms, which only affects which interleaving is produced, never the verdict",
		"the transaction under test uses a 1 ms timeout when expiry takes part (the fired timer parks at timer.fired) and 1 h otherwise",
		"rollbacks are counted at the recording device (one Set call per applied rollback transaction)",
		"a death of the worker process with a Go panic message is a violation (the timer goroutine is started by the code under test and cannot be recovered)",
	}
}

func (c *c16) Setup(w *core.Worker) error {
	fixture.Quiet()
	c.buildScenarios()
	env, err := fixture.NewEnv(w.Scratch)
	c.env = env
	return err
}

func (c *c16) CrashKey(tail string) (string, bool) {
	switch {
	case strings.Contains(tail, "close of closed channel"):
		return "C16/panic-close-of-closed-channel", true
	case strings.Contains(tail, "panic:"), strings.Contains(tail, "fatal error:"):
		first := tail
		if i := strings.IndexByte(first, '\n'); i > 0 {
			first = first[:i]
		}
		return "C16/crash:" + first, true
	}
	return "", false
}

type c16Outcome struct {
	results   map[string]string // op -> error string ("<nil>" on success)
	rollbacks int
	finalDev  string
	finalInt  string
	bApplied  bool
	panics    []string
}

func (o *c16Outcome) String() string {
	ks := make([]string, 0, len(o.results))
	for k := range o.results {
		ks = append(ks, k)
	}
	sort.Strings(ks)
	var b strings.Builder
	for _, k := range ks {
		fmt.Fprintf(&b, "%s=%s ", k, o.results[k])
	}
	fmt.Fprintf(&b, "rollbacks=%d dev=%s intended=%s", o.rollbacks, o.finalDev, o.finalInt)
	return b.String()
}

func errClass(err error) string {
	switch {
	case err == nil:
		return "<nil>"
	case errors.Is(err, datastore.ErrDatastoreLocked):
		return "LOCKED"
	}
	return "ERR(" + err.Error() + ")"
}

// runSchedule executes ops under the choice vector on a fresh datastore.
func (c *c16) runSchedule(ops []string, choices []int, res *core.CaseResult) (*c16Outcome, *sched.Result) {
	ds := c.env.NewDS(fixture.DSOpts{})
	defer ds.Close()
	ctx := context.Background()
	mk := func(owner, path, val string, prio int32) []*types.TransactionIntent {
		req := &sdcpb.TransactionIntent{Intent: owner, Priority: prio, Update: []*sdcpb.Update{{Path: model.Parse(path).ToPb(), Value: model.MkTv(val)}}}
		ti, err := ds.SdcpbTransactionIntentToInternalTI(ctx, req)
		if err != nil {
			panic(err)
		}
		return []*types.TransactionIntent{ti}
	}
	// baseline: intent oa = v0, confirmed
	if _, err := ds.TransactionSet(ctx, "base", mk("oa", "/sys/descr", "v0", 10), nil, time.Hour, false); err != nil {
		res.Inconclusive("C16/setup", "baseline set failed: %v", err)
		return nil, nil
	}
	if err := ds.TransactionConfirm(ctx, "base"); err != nil {
		res.Inconclusive("C16/setup", "baseline confirm failed: %v", err)
		return nil, nil
	}
	withExpiry := false
	for _, o := range ops {
		if o == "expiry" {
			withExpiry = true
		}
	}
	s := sched.New("ds.confirm", "ds.cancel", "ds.set", "tm.", "tx.confirm", "timer.")
	s.ExemptSelf()
	to := time.Hour
	if withExpiry {
		to = time.Millisecond
		s.Enable() // the fired timer must park
	}
	if _, err := ds.TransactionSet(ctx, "A", mk("oa", "/sys/descr", "v1", 10), nil, to, false); err != nil {
		s.Disable(nil)
		res.Inconclusive("C16/setup", "set A failed: %v", err)
		return nil, nil
	}
	setsBefore := ds.Dev.NumSets()
	if !withExpiry {
		s.Enable()
	}
	out := &c16Outcome{results: map[string]string{}}
	var mu sync.Mutex
	nOps := 0
	for _, o := range ops {
		if o == "expiry" {
			continue
		}
		o := o
		nOps++
		s.Go(o, func() {
			var err error
			defer func() {
				if r := recover(); r != nil {
					buf := make([]byte, 4096)
					n := runtime.Stack(buf, false)
					mu.Lock()
					out.panics = append(out.panics, fmt.Sprintf("%s: %v\n%s", o, r, buf[:n]))
					out.results[o] = "PANIC"
					mu.Unlock()
				}
			}()
			switch o {
			case "confirm":
				err = ds.TransactionConfirm(ctx, "A")
			case "confirm-other":
				err = ds.TransactionConfirm(ctx, "Z")
			case "cancel":
				err = ds.TransactionCancel(ctx, "A")
			case "cancel-other":
				err = ds.TransactionCancel(ctx, "Z")
			case "setB":
				cctx, cancel := context.WithTimeout(ctx, 450*time.Millisecond)
				defer cancel()
				var rsp *sdcpb.TransactionSetResponse
				rsp, err = ds.TransactionSet(cctx, "B", mk("ob", "/sys/name", "nb", 20), nil, time.Hour, false)
				if err == nil && rsp != nil {
					mu.Lock()
					out.bApplied = true
					mu.Unlock()
				}
			}
			mu.Lock()
			out.results[o] = errClass(err)
			mu.Unlock()
		})
	}
	sr := s.Run(nOps, choices, 5*time.Second)
	if sr.Stuck {
		buf := make([]byte, 1<<16)
		n := runtime.Stack(buf, true)
		out.panics = append(out.panics, "STUCK\n"+string(buf[:n]))
	}
	// quiescence: wait (bounded) until transaction A is resolved or clearly stays open
	if withExpiry {
		deadline := time.Now().Add(3 * time.Second)
		for time.Now().Before(deadline) {
			if id, _ := ds.VerifOpenTransaction(); id != "A" {
				break
			}
			time.Sleep(time.Millisecond)
		}
	}
	time.Sleep(2 * time.Millisecond)
	mu.Lock()
	bApplied := out.bApplied
	mu.Unlock()
	_ = bApplied
	// a rollback of A is a Set call after A's own apply that writes (or deletes) A's leaf; B only touches /sys/name
	for i, rec := range ds.Dev.AllSets() {
		if i < setsBefore {
			continue
		}
		touches := false
		for _, u := range rec.Updates {
			if pathString(u.GetPath()) == "/sys/descr" {
				touches = true
			}
		}
		for _, d := range rec.Deletes {
			if model.FromPb(d).Covers(model.Parse("/sys/descr")) {
				touches = true
			}
		}
		if touches {
			out.rollbacks++
		}
	}
	out.finalDev = ds.Dev.Snapshot()["/sys/descr"]
	d, _ := fixture.DumpIntended(ctx, c.env.Cache, ds.Name)
	im, _ := fixture.IntendedMap(d)
	out.finalInt = im["sys,descr|oa|10"]
	if id, _ := ds.VerifOpenTransaction(); id != "" {
		out.results["open-at-end"] = id
	}
	return out, sr
}

func (c *c16) judge(ops []string, out *c16Outcome, sr *sched.Result, res *core.CaseResult) {
	has := func(op string) bool {
		for _, o := range ops {
			if o == op {
				return true
			}
		}
		return false
	}
	where := fmt.Sprintf("ops=%v schedule=%v\n  outcome: %s", ops, sr.Trace, out)
	for _, p := range out.panics {
		if strings.HasPrefix(p, "STUCK") {
			res.Violate("C16/deadlock", "operations neither finished nor reached a yield point for 5 s\n  %s\n%s", where, p)
		} else {
			res.Violate("C16/panic-in-operation", "%s\n  %s", p, where)
		}
	}
	confirmOK := out.results["confirm"] == "<nil>"
	cancelOK := out.results["cancel"] == "<nil>"
	if out.results["confirm-other"] == "<nil>" || out.results["cancel-other"] == "<nil>" {
		res.Violate("C16/foreign-id-accepted", "an operation naming a foreign id succeeded\n  %s", where)
	}
	if confirmOK && cancelOK {
		res.Violate("C16/confirm-and-cancel-both-succeeded", "%s", where)
	}
	if out.rollbacks > 1 {
		res.Violate("C16/rolled-back-twice", "transaction A was rolled back %d times\n  %s", out.rollbacks, where)
	}
	if confirmOK && out.rollbacks > 0 {
		res.Violate("C16/confirmed-transaction-rolled-back", "Confirm returned success but the transaction was rolled back\n  %s", where)
	}
	if cancelOK && out.rollbacks != 1 {
		res.Violate("C16/cancel-succeeded-without-single-rollback", "Cancel returned success, rollbacks=%d\n  %s", out.rollbacks, where)
	}
	// state agrees with the outcome
	kept := out.rollbacks == 0
	wantVal := "v1"
	if !kept {
		wantVal = "v0"
	}
	if out.finalDev != wantVal || out.finalInt != wantVal {
		res.Violate("C16/state-disagrees-with-outcome", "rollbacks=%d but device has %q and the intended store %q (want %q)\n  %s", out.rollbacks, out.finalDev, out.finalInt, wantVal, where)
	}
	// exactly one outcome must be reached when something that resolves the transaction took part and succeeded / fired
	if has("expiry") && !confirmOK && out.rollbacks != 1 {
		res.Violate("C16/expired-transaction-not-rolled-back-once", "the timer expired, Confirm did not succeed, rollbacks=%d\n  %s", out.rollbacks, where)
	}
	if id := out.results["open-at-end"]; id == "A" && (confirmOK || cancelOK || has("expiry")) {
		res.Violate("C16/still-open-after-resolution", "transaction A is still registered\n  %s", where)
	}
	// refused merely because a Set is waiting
	if has("setB") {
		for _, op := range []string{"confirm", "cancel"} {
			other := "cancel"
			if op == "cancel" {
				other = "confirm"
			}
			// other Confirm/Cancel calls legitimately hold the datastore lock for a moment
			if out.results[op] == "LOCKED" && !has(other) && !has("confirm-other") && !has("cancel-other") {
				res.Violate("C16/refused-because-set-is-waiting", "%s for the open transaction was refused with ErrDatastoreLocked while only a competing TransactionSet was waiting\n  %s", op, where)
			}
		}
	}
}

func (c *c16) RunCase(w *core.Worker, idx int, seed uint64, res *core.CaseResult) {
	if idx >= len(c.scenarios) {
		c.runStress(w, idx-len(c.scenarios), seed, res)
		return
	}
	ops := c.scenarios[idx]
	capN := c.schedCap(w.Tier, len(ops))
	if w.Verbose && os.Getenv("VERIF_SCHED_CAP") != "" {
		fmt.Sscan(os.Getenv("VERIF_SCHED_CAP"), &capN)
	}
	res.Tracef("scenario %v (cap %d schedules)", ops, capN)
	stack := [][]int{{}}
	runs := 0
	outcomes := map[string]int{}
	traces := map[string]bool{}
	realChoice := false
	for len(stack) > 0 && runs < capN {
		ch := stack[len(stack)-1]
		stack = stack[:len(stack)-1]
		out, sr := c.runSchedule(ops, ch, res)
		if out == nil {
			return
		}
		runs++
		tk := strings.Join(sr.Trace, ">")
		if !traces[tk] {
			traces[tk] = true
			c.judge(ops, out, sr, res)
		}
		outcomes[out.String()]++
		for i := len(ch); i < len(sr.NOpts); i++ {
			if sr.NOpts[i] > 1 {
				realChoice = true
			}
			for alt := 1; alt < sr.NOpts[i]; alt++ {
				n := append(append([]int{}, ch...), make([]int, i-len(ch))...)
				n = append(n, alt)
				stack = append(stack, n)
			}
		}
		if w.Verbose {
			res.Tracef("  schedule %v -> %s", sr.Trace, out)
		}
		if len(res.Findings) > 8 {
			break
		}
	}
	res.Count("schedules_executed", runs)
	res.Count("distinct_traces", len(traces))
	res.Count("distinct_outcomes", len(outcomes))
	if len(stack) == 0 {
		res.Count("scenarios_enumerated_completely", 1)
	}
	res.Hash = core.HashOf(strings.Join(ops, "+"))
	res.NonTrivial = realChoice || len(ops) == 1
	oc := []string{}
	for k, v := range outcomes {
		oc = append(oc, fmt.Sprintf("%dx %s", v, k))
	}
	sort.Strings(oc)
	if len(ops) == 2 && (ops[0] == "confirm" || ops[0] == "cancel") {
		res.Sample = map[string]any{"ops": ops, "schedules": runs, "outcomes": oc}
	}
}
