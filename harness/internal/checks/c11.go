package checks

import (
	"context"
	"fmt"
	"github.com/sdcio/data-server/pkg/datastore/target"
	"math"
	"sort"
	"strings"
	"time"

	"github.com/sdcio/cache/proto/cachepb"
	"github.com/sdcio/data-server/pkg/cache"
	"github.com/sdcio/data-server/pkg/config"
	"github.com/sdcio/data-server/pkg/datastore"
	schemaClient "github.com/sdcio/data-server/pkg/datastore/clients/schema"
	"github.com/sdcio/data-server/pkg/server"
	"github.com/sdcio/data-server/pkg/tree"
	"github.com/sdcio/data-server/pkg/utils"
	sdcpb "github.com/sdcio/sdc-protos/sdcpb"

	"verifharness/internal/core"
	"verifharness/internal/fixture"
	"verifharness/internal/model"
)

// C11: path representations are lossless and collision-free.

type c11 struct {
	h  *hist
	gd *c14
}

func init() { core.Register(&c11{}) }

func (c *c11) ID() string    { return "C11" }
func (c *c11) Level() string { return "exploration" }
func (c *c11) NumCases(tier string) int {
	if tier == "thorough" {
		return 40000
	}
	return 2400
}
func (c *c11) Rule() string {
	return "one case = one adversarial pair (or triple) of different instance paths in lists with 1, 2 and 3 keys (alphabetical and non-alphabetical key statements) and nested lists: key values swapped between keys, '_'-joins that coincide, one key value extending another, a key value that spells out a nested path (if[name=e1_unit_1] vs if[name=e1]/unit[id=1]), sibling lists if / if-x, plus PRNG key values over the alphabet {letters, digits, '/', '_', ':', '=', space, '[', ']', '-', '.'} (the cache's own separator ',' is excluded, as the statement allows); the paths are written with different values by different owners, then one owner is deleted, then the other. Judged after every transaction: (1) request path -> element sequence -> schema-bound path round trip, (2) the paths in the response and at the device equal the request paths, (3) device content per the winner model (C01 oracle) - nothing of the other path is touched, (4) GetData of each list entry returns exactly that entry, (5) the intended store holds exactly the expected cache paths. The xpath text form (ToXPath/ParsePath) is tallied, not judged. distinct = the path set; non-trivial = the pair collides in at least one textual form ('_'-join, ','-free concatenation, prefix) "
}
func (c *c11) Assumptions() []string {
	return []string{
		"key values containing ',' are excluded (cache key format, outside the statement); empty key values are not generated",
		"the harness's canonical path form escapes ']' and '\\\\' and is independent of data-server's helpers",
	}
}

func (c *c11) Setup(w *core.Worker) error {
	fixture.Quiet()
	env, err := fixture.NewEnv(w.Scratch)
	if err != nil {
		return err
	}
	c.h = &hist{env: env, owners: []string{"oa", "ob", "oc"}}
	c.gd = &c14{h: c.h}
	return nil
}

var c11Alphabet = []string{"a", "b", "e", "1", "0", "/", "_", ":", "=", " ", "[", "]", "-", ".", "x", "é", "\"", "'"}

func c11Val(rng *core.Rng) string {
	for {
		n := 1 + rng.Intn(5)
		var b strings.Builder
		for i := 0; i < n; i++ {
			b.WriteString(c11Alphabet[rng.Intn(len(c11Alphabet))])
		}
		s := b.String()
		// leading / trailing blanks are legal but make the witness unreadable; keep inner blanks only
		if strings.TrimSpace(s) != s || s == "" {
			continue
		}
		return s
	}
}

func mkP(elems ...any) string {
	// elems: name, map[string]string or nil, name, ...
	var p model.Path
	for i := 0; i < len(elems); i += 2 {
		e := model.Elem{Name: elems[i].(string)}
		if i+1 < len(elems) && elems[i+1] != nil {
			e.Keys = elems[i+1].(map[string]string)
		}
		p = append(p, e)
	}
	return p.String()
}

type kv = map[string]string

// pathSet draws the adversarial paths of a case: list of leaf paths (canonical), and whether they collide textually.
func c11PathSet(rng *core.Rng, idx int) ([]string, string) {
	x, y := c11Val(rng), c11Val(rng)
	for y == x {
		y = c11Val(rng)
	}
	switch idx % 12 {
	case 10:
		return []string{mkP("duo", kv{"k1": x + "/" + y, "k2": "c"}, "v", nil), mkP("duo", kv{"k1": x, "k2": y + "/c"}, "v", nil)}, "slash-join(duo)"
	case 11:
		return []string{mkP("if", kv{"name": x + "/descr"}, "mtu", nil), mkP("if", kv{"name": x}, "descr", nil), mkP("if", kv{"name": x + "/unit/1"}, "descr", nil), mkP("if", kv{"name": x}, "unit", kv{"id": "1"}, "descr", nil)}, "key value ends in a child name"
	case 0:
		return []string{mkP("duo", kv{"k1": x, "k2": y}, "v", nil), mkP("duo", kv{"k1": y, "k2": x}, "v", nil)}, "swap(duo)"
	case 1:
		return []string{mkP("peer", kv{"zone": x, "name": y}, "as", nil), mkP("peer", kv{"zone": y, "name": x}, "as", nil)}, "swap(peer: key statement not alphabetical)"
	case 2:
		return []string{mkP("duo", kv{"k1": x + "_" + y, "k2": "c"}, "v", nil), mkP("duo", kv{"k1": x, "k2": y + "_c"}, "v", nil)}, "underscore-join(duo)"
	case 3:
		return []string{mkP("if", kv{"name": x}, "descr", nil), mkP("if", kv{"name": x + "0"}, "descr", nil), mkP("if-x", kv{"name": x}, "val", nil)}, "prefix(if, if-x)"
	case 4:
		return []string{mkP("if", kv{"name": "e1_unit_1"}, "descr", nil), mkP("if", kv{"name": "e1"}, "unit", kv{"id": "1"}, "descr", nil), mkP("if", kv{"name": "e1"}, "descr", nil)}, "key value spells a nested path"
	case 5:
		return []string{mkP("tri", kv{"a": x, "b": "1", "c": "x"}, "v", nil), mkP("tri", kv{"a": x, "b": "1", "c": "y"}, "v", nil), mkP("tri", kv{"a": "x", "b": "1", "c": "y"}, "w", nil)}, "three keys (tri: key statement c a b)"
	case 6:
		return []string{mkP("sys", nil, "b-cont", nil, "bl", kv{"k": x}, "v", nil), mkP("sys", nil, "b-cont", nil, "bl", kv{"k": x + y}, "v", nil)}, "prefix(augmented list)"
	case 7:
		return []string{mkP("duo", kv{"k1": x, "k2": y}, "v", nil), mkP("duo", kv{"k1": x + y, "k2": "z"}, "v", nil), mkP("duo", kv{"k1": x, "k2": y + "z"}, "v", nil)}, "concatenation(duo)"
	case 8:
		return []string{mkP("if", kv{"name": x}, "unit", kv{"id": "1"}, "descr", nil), mkP("if", kv{"name": x}, "unit", kv{"id": "10"}, "descr", nil), mkP("if", kv{"name": x + "/unit"}, "descr", nil)}, "nested list + key value with separators"
	}
	return []string{mkP("peer", kv{"zone": x, "name": y}, "timers", nil, "hold", nil), mkP("peer-group", kv{"name": x}, "as", nil), mkP("peer", kv{"zone": x + "-group", "name": y}, "as", nil)}, "peer / peer-group"
}

func c11Value(p string, i int) string {
	switch {
	case strings.HasSuffix(p, "/as"), strings.HasSuffix(p, "/hold"), strings.HasSuffix(p, "/mtu"):
		return fmt.Sprint(100 + i)
	}
	return fmt.Sprintf("val%d", i)
}

func (c *c11) RunCase(w *core.Worker, idx int, seed uint64, res *core.CaseResult) {
	rng := core.NewRng(seed)
	paths, kind := c11PathSet(rng, idx)
	res.Tracef("%s: %v", kind, paths)
	c.h.pool = nil
	run := c.h.start(rng, res, false, false)
	defer run.close()
	ctx := context.Background()
	scb := schemaClient.NewSchemaClientBound(fixture.SchemaConfig().GetSchema(), c.h.env.Schema)
	srv := server.NewVerif(ctx, &config.Config{}, c.h.env.Schema, c.h.env.Cache, map[string]*datastore.Datastore{run.ds.Name: run.ds.Datastore})

	// (1) conversion round trips
	for _, p := range paths {
		mp := model.Parse(p)
		pb := mp.ToPb()
		strs := utils.ToStrings(pb, false, false)
		var back *sdcpb.Path
		var err error
		if apiCall(res, "SchemaClientBound.ToPath", func() { back, err = scb.ToPath(ctx, strs) }) {
			return
		}
		res.Count("round_trips", 1)
		if err != nil {
			res.Violate("C11/element-sequence-not-convertible-back", "%s: ToPath(ToStrings(p)) failed: %v (elements %q)", p, err, strs)
		} else if got := model.FromPb(back).String(); got != p {
			res.Violate("C11/round-trip-through-element-sequence-changes-the-path", "%s -> %q -> %s", p, strs, got)
		}
		// xpath text form: tallied only
		xp := utils.ToXPath(pb, false)
		if pp, err := utils.ParsePath(xp); err != nil || model.FromPb(pp).String() != p {
			res.Count("xpath_text_round_trip_lossy(not judged)", 1)
		}
	}
	owners := []struct {
		name string
		prio int32
	}{{"oa", 10}, {"ob", 20}, {"oc", 30}}
	// transactions: one owner per path, then delete them one by one
	var steps [][]stepIntent
	for i, p := range paths {
		o := owners[i%len(owners)]
		steps = append(steps, []stepIntent{{Owner: o.name, Prio: o.prio, Vals: map[string]string{p: c11Value(p, i)}, Kind: "create"}})
	}
	for i := range paths {
		o := owners[i%len(owners)]
		if i < len(owners) {
			steps = append(steps, []stepIntent{{Owner: o.name, Prio: o.prio, Delete: true, Kind: "delete"}})
		}
	}
	// with three paths and three owners every owner holds one path; with more paths than owners the later path replaces the owner's content
	for si, step := range steps {
		if len(res.Findings) > 0 {
			break
		}
		res.Tracef("step %d: %s", si, stepString(step))
		out, ok := run.commit(step)
		if !ok {
			break
		}
		where := fmt.Sprintf("%s, after step %d [%s]", kind, si, stepString(step))
		// (2) response and device paths are request paths
		if !step[0].Delete {
			wantLeaves := (&model.Intent{Vals: step[0].Vals}).Expanded()
			for _, u := range out.rsp.GetUpdate() {
				k := model.FromPb(u.GetPath()).String()
				if _, ok := wantLeaves[k]; !ok {
					res.Violate("C11/response-path-differs-from-request-path", "%s: the response lists an update for %s; the request wrote %s", where, k, model.SortedMap(wantLeaves))
				}
			}
		}
		// (3) device per winner model
		nf := len(res.Findings)
		run.checkDevice(where, out.rsp)
		for i := nf; i < len(res.Findings); i++ {
			res.Findings[i].Key = strings.Replace(res.Findings[i].Key, "C01/", "C11/device-", 1)
		}
		// (5) intended store
		run.checkIntendedKeyed(where, "C11")
		// (6) the tree's index of the stores (existence checks and precedence queries of the validators and the choice
		// resolution): asked for every adversarial path and each of its prefixes, answered from what is really stored
		c.indexProbe(ctx, res, run, where, paths)
		// (4) GetData per list entry
		running, _ := fixture.DumpStore(ctx, c.h.env.Cache, run.ds.Name, cachepb.Store_CONFIG)
		_ = running
		dev := run.ds.Dev.Snapshot()
		for _, p := range paths {
			mp := model.Parse(p)
			// the outermost list entry of the path
			var entry model.Path
			for i, e := range mp {
				if len(e.Keys) > 0 {
					entry = mp[:i+1]
					break
				}
			}
			if entry == nil {
				continue
			}
			want := map[string]string{}
			for k, v := range dev {
				if entry.Covers(model.Parse(k)) {
					want[k] = v
				}
			}
			// every encoding has its own copy of the filtering loop
			for _, enc := range []sdcpb.Encoding{sdcpb.Encoding_STRING, sdcpb.Encoding_PROTO, sdcpb.Encoding_JSON, sdcpb.Encoding_JSON_IETF} {
				req := &sdcpb.GetDataRequest{Name: run.ds.Name, Path: []*sdcpb.Path{entry.ToPb()}, DataType: sdcpb.DataType_CONFIG, Encoding: enc, Datastore: &sdcpb.DataStore{Type: sdcpb.Type_MAIN}}
				got := c.gd.get(srv, req)
				res.Count("getdata_requests", 1)
				if got.err != nil {
					if strings.HasPrefix(got.err.Error(), "PANIC") {
						res.Inconclusive("api-panic", "%s: GetData %s: %v", where, entry, got.err)
					} else {
						res.Violate("C11/getdata-fails-for-valid-instance-path", "%s: GetData %s (%s): %v", where, entry, enc, got.err)
					}
					continue
				}
				if d := fixture.MapDiff(want, got.leaves); d != "" {
					res.Violate("C11/getdata-confuses-instance-paths", "%s: GetData %s (%s) returned something else than that entry: %s", where, entry, enc, d)
				}
			}
		}
	}
	// (7) the device reports all the paths in ONE sync notification (and once more, one notification per path): the running
	// store of a fresh datastore must hold every one of them with its own value
	if len(res.Findings) == 0 {
		c.syncProbe(ctx, res, kind, paths)
	}
	sort.Strings(paths)
	res.Hash = core.HashOf(paths...)
	res.NonTrivial = true
	if idx < 3 {
		res.Sample = map[string]any{"kind": kind, "paths": paths}
	}
}

// checkIntendedKeyed is checkIntended with another key prefix (C11 re-uses the C02 oracle on adversarial paths).
func (r *histRun) checkIntendedKeyed(tag, prop string) {
	n := len(r.res.Findings)
	r.checkIntended(tag)
	for i := n; i < len(r.res.Findings); i++ {
		r.res.Findings[i].Key = strings.Replace(r.res.Findings[i].Key, "C02/", prop+"/intended-store-", 1)
	}
}

// indexProbe asks the tree's cache client (the per-transaction index of the intended and the running store) about every
// adversarial path and every prefix of it, and compares with the stored entries taken element by element.
func (c *c11) indexProbe(ctx context.Context, res *core.CaseResult, run *histRun, where string, paths []string) {
	dump, err := fixture.DumpIntended(ctx, c.h.env.Cache, run.ds.Name)
	if err != nil {
		return
	}
	running, _ := fixture.DumpStore(ctx, c.h.env.Cache, run.ds.Name, cachepb.Store_CONFIG)
	tc := tree.NewTreeCacheClient(run.ds.Name, c.h.env.Cache)
	seen := map[string]bool{}
	for _, p := range paths {
		full := strings.Split(model.CachePath(model.Parse(p)), ",")
		for n := 1; n <= len(full); n++ {
			q := full[:n]
			qk := strings.Join(q, ",")
			if seen[qk] {
				continue
			}
			seen[qk] = true
			// reference: element-wise
			wantPrio := int32(math.MaxInt32)
			wantExists := false
			for _, e := range dump {
				ep := strings.Split(e.Path, ",")
				if len(ep) < n {
					continue
				}
				same := true
				for i := 0; i < n; i++ {
					if ep[i] != q[i] {
						same = false
						break
					}
				}
				if !same {
					continue
				}
				if e.Priority < wantPrio {
					wantPrio = e.Priority
				}
				if len(ep) == n {
					wantExists = true
				}
			}
			var gotPrio int32
			var gotExists bool
			var gotRunning *cache.Update
			var rerr error
			if apiCall(res, "TreeCacheClient", func() {
				gotPrio = tc.GetBranchesHighesPrecedence(ctx, q)
				gotExists, _ = tc.IntendedPathExists(ctx, q)
				gotRunning, rerr = tc.ReadRunningPath(ctx, q)
			}) {
				return
			}
			res.Count("index_queries", 3)
			if gotPrio != wantPrio {
				res.Violate("C11/precedence-query-confuses-instance-paths", "%s: highest precedence at or below %q is %d, the index answers %d (intended store: %s)", where, q, wantPrio, gotPrio, intendedString(dump))
			}
			if gotExists != wantExists {
				res.Violate("C11/existence-check-confuses-instance-paths", "%s: an intended entry for exactly %q exists=%v, the index answers %v (intended store: %s)", where, q, wantExists, gotExists, intendedString(dump))
			}
			_, wantRunning := running[qk]
			if rerr == nil && (gotRunning != nil) != wantRunning {
				res.Violate("C11/running-lookup-confuses-instance-paths", "%s: the running store holds %q=%v, the lookup answers %v", where, q, wantRunning, gotRunning != nil)
			} else if gotRunning != nil && strings.Join(gotRunning.GetPath(), ",") != qk {
				res.Violate("C11/running-lookup-confuses-instance-paths", "%s: the lookup of %q returns the entry %q", where, q, gotRunning.GetPath())
			}
		}
	}
}

func intendedString(dump []fixture.IntendedEntry) string {
	l := []string{}
	for _, e := range dump {
		l = append(l, e.Key()+"="+e.Value)
	}
	sort.Strings(l)
	return strings.Join(l, "; ")
}

// syncProbe feeds the adversarial paths through the datastore's sync loop.
func (c *c11) syncProbe(ctx context.Context, res *core.CaseResult, kind string, paths []string) {
	for _, together := range []bool{true, false} {
		ds := c.h.env.NewDS(fixture.DSOpts{Sync: &config.Sync{Validate: false, Buffer: 64, WriteWorkers: 1}})
		sctx, cancel := context.WithCancel(ctx)
		go ds.Sync(sctx)
		ch := ds.VerifSyncCh()
		want := map[string]string{}
		var all []*sdcpb.Update
		for i, p := range paths {
			v := c11Value(p, i)
			all = append(all, &sdcpb.Update{Path: model.Parse(p).ToPb(), Value: strTv(v)})
			want[model.CachePath(model.Parse(p))] = v
			for kp, kvv := range model.Parse(p).KeyLeaves() {
				want[model.CachePath(model.Parse(kp))] = kvv
			}
		}
		if together {
			ch <- &target.SyncUpdate{Update: &sdcpb.Notification{Timestamp: 1, Update: all}}
		} else {
			for _, u := range all {
				ch <- &target.SyncUpdate{Update: &sdcpb.Notification{Timestamp: 1, Update: []*sdcpb.Update{u}}}
			}
		}
		ch <- &target.SyncUpdate{Update: &sdcpb.Notification{Update: []*sdcpb.Update{{Path: mustPb("/verif-barrier"), Value: kindTv("uint", "1")}}}}
		var got map[string]string
		ok := waitFor(20*time.Second, func() bool {
			got, _ = fixture.DumpStore(ctx, c.h.env.Cache, ds.Name, cachepb.Store_CONFIG)
			_, b := got["verif-barrier"]
			return b
		})
		cancel()
		ds.Close()
		if !ok {
			res.Inconclusive("C11/sync/barrier", "%s: the barrier notification was not stored within 20 s", kind)
			return
		}
		delete(got, "verif-barrier")
		res.Count("sync_notifications_compared", 1)
		if d := fixture.MapDiff(want, got); d != "" {
			how := "one notification per path"
			if together {
				how = "all paths in one notification"
			}
			res.Violate("C11/sync-confuses-instance-paths", "%s, %s: the running store differs from what the device reported: %s\n  reported: %v", kind, how, d, paths)
			return
		}
	}
}
