package checks

import (
	"context"
	"errors"
	"fmt"
	"strings"
	"time"

	"github.com/sdcio/data-server/pkg/datastore"
	"github.com/sdcio/data-server/pkg/datastore/types"
	sdcpb "github.com/sdcio/sdc-protos/sdcpb"

	"verifharness/internal/core"
	"verifharness/internal/fixture"
	"verifharness/internal/model"
)

// C06: transactions are exclusive, id-scoped and never wedge the datastore.
// Sequences over {Set(valid|invalid|dry|deverr), Confirm(open|other|stale), Cancel(open|other|stale), Wait}
// are executed against a fresh datastore each; a sequential model of the transaction slot decides.

type c06 struct {
	env *fixture.Env
}

func init() { core.Register(&c06{}) }

var c06Alphabet = []string{"Sv", "Sn", "Si", "Sj", "Sr", "Sd", "Se", "Co", "Cx", "Cs", "Xo", "Xx", "Xs", "W"}

func (c *c06) ID() string    { return "C06" }
func (c *c06) Level() string { return "exploration" }

func pow(b, e int) int {
	r := 1
	for i := 0; i < e; i++ {
		r *= b
	}
	return r
}

// exhaustive lengths per tier, then random longer sequences
func (c *c06) plan(tier string) (exLen int, random int) {
	if tier == "thorough" {
		return 4, 6000
	}
	return 3, 400
}

func (c *c06) numExhaustive(tier string) int {
	exLen, _ := c.plan(tier)
	n := 0
	for l := 1; l <= exLen; l++ {
		n += pow(len(c06Alphabet), l)
	}
	return n
}

func (c *c06) NumCases(tier string) int {
	_, r := c.plan(tier)
	return c.numExhaustive(tier) + r
}

func (c *c06) Exhaustive(tier string) bool { return false } // exhaustive part + random tail: not flagged as a whole

func (c *c06) Rule() string {
	return "one case = one operation sequence over {Set(valid|valid without any change for the device|validation-failure|dry-run|device-error), Confirm(open id|other id|stale id), Cancel(open|other|stale), wait-for-timeout} on a fresh datastore; all sequences up to length 3 (quick) / 4 (thorough) are enumerated exhaustively, longer ones are PRNG-drawn; after every operation the return value, the registered transaction and its timer state (read-only VerifOpenTransaction) and the traffic at the recording device are compared with a sequential model of the transaction slot; every sequence ends with a fresh Set that must be accepted. distinct = the sequence; non-trivial = contains a Set that opens a transaction and at least one later operation"
}

func (c *c06) Assumptions() []string {
	return []string{
		"timeout-related operations use a 30 ms transaction timeout; the slot must be free 10 s later at the latest (>300x the timeout); everything else uses a 1 h timeout so that no verdict depends on wall-clock races",
		"a refused Set is observed with a 60 ms request context (the server waits for the slot until the context ends)",
		"VerifOpenTransaction reads the transaction manager under its own lock (hook, build tag verif)",
	}
}

func (c *c06) Setup(w *core.Worker) error {
	fixture.Quiet()
	env, err := fixture.NewEnv(w.Scratch)
	c.env = env
	return err
}

func (c *c06) sequence(tier string, idx int, seed uint64) []string {
	exLen, _ := c.plan(tier)
	n := len(c06Alphabet)
	off := idx
	for l := 1; l <= exLen; l++ {
		cnt := pow(n, l)
		if off < cnt {
			seq := make([]string, l)
			for i := l - 1; i >= 0; i-- {
				seq[i] = c06Alphabet[off%n]
				off /= n
			}
			return seq
		}
		off -= cnt
	}
	rng := core.NewRng(seed)
	l := exLen + 1 + rng.Intn(3)
	seq := make([]string, l)
	for i := range seq {
		seq[i] = c06Alphabet[rng.Intn(n)]
	}
	return seq
}

type slotModel struct {
	open     string
	short    bool // opened with the short timeout
	stale    string
	devSets  int // expected number of Set calls at the device
	confVal  string
	oldVal   string
	hasValue bool
	noChange bool // the open transaction changed nothing on the device
	loose    bool // the last operation may or may not have sent an (empty) Set to the device
}

func (c *c06) RunCase(w *core.Worker, idx int, seed uint64, res *core.CaseResult) {
	seq := c.sequence(w.Tier, idx, seed)
	res.Hash = core.HashOf(seq...)
	res.Tracef("sequence: %s", strings.Join(seq, " "))
	if idx%500 == 0 {
		res.Sample = strings.Join(seq, " ")
	}
	ds := c.env.NewDS(fixture.DSOpts{})
	defer ds.Close()
	ctx := context.Background()
	m := &slotModel{}
	const shortTO = 30 * time.Millisecond
	// two confirmed intents the sequences build on: m2's leaf is valid only while m1 says a=on
	for i, in := range []struct{ o, p, v string }{{"m1", "/cons/mst/a", "on"}, {"m2", "/cons/mst/b", "x"}} {
		ti, err := ds.SdcpbTransactionIntentToInternalTI(ctx, &sdcpb.TransactionIntent{Intent: in.o, Priority: int32(90 + i),
			Update: []*sdcpb.Update{{Path: model.Parse(in.p).ToPb(), Value: model.MkTv(in.v)}}})
		if err != nil {
			res.Inconclusive("C06/setup", "%v", err)
			return
		}
		id := "setup" + in.o
		if rsp, err := ds.TransactionSet(ctx, id, []*types.TransactionIntent{ti}, nil, time.Hour, false); err != nil || transactionHasErrors(rsp) {
			res.Inconclusive("C06/setup", "%v %v", err, rsp.GetIntents())
			return
		}
		if err := ds.TransactionConfirm(ctx, id); err != nil {
			res.Inconclusive("C06/setup", "%v", err)
			return
		}
		m.devSets++
	}
	txn := 0
	mkIntent := func(kind string, n int) []*types.TransactionIntent {
		req := &sdcpb.TransactionIntent{Intent: "c06", Priority: 10}
		switch kind {
		case "Sn":
			// a valid transaction that changes nothing on the device: a stored intent re-submitted verbatim, the delete
			// of an intent that does not exist, or no intent at all
			switch n % 3 {
			case 0:
				req.Intent, req.Priority = "m1", 90
				req.Update = []*sdcpb.Update{{Path: model.Parse("/cons/mst/a").ToPb(), Value: model.MkTv("on")}}
			case 1:
				req.Intent, req.Delete = "ghost", true
			case 2:
				return []*types.TransactionIntent{}
			}
		case "Si":
			// validation failure: mandatory leaf of the list entry missing (reported under the pseudo owner "unknown")
			req.Update = []*sdcpb.Update{{Path: model.Parse("/cons/mlist[k=x]/opt").ToPb(), Value: model.MkTv(fmt.Sprintf("o%d", n))}}
		case "Sj":
			// validation failure reported under the intent itself: pattern
			req.Update = []*sdcpb.Update{{Path: model.Parse("/cons/pat").ToPb(), Value: model.MkTv("xyz")}}
		case "Sr":
			// validation failure reported under "running": m1 turns a off, m2's leaf b (must ../a = 'on') is in the tree only through running
			req.Intent, req.Priority = "m1", 90
			req.Update = []*sdcpb.Update{{Path: model.Parse("/cons/mst/a").ToPb(), Value: model.MkTv("off")}}
		default:
			req.Update = []*sdcpb.Update{{Path: model.Parse("/sys/descr").ToPb(), Value: model.MkTv(fmt.Sprintf("v%d", n))}}
		}
		ti, err := ds.SdcpbTransactionIntentToInternalTI(ctx, req)
		if err != nil {
			res.Inconclusive("C06/convert", "%v", err)
			return nil
		}
		return []*types.TransactionIntent{ti}
	}
	observe := func(step int, op string) {
		id, armed := ds.VerifOpenTransaction()
		if id == "" && m.open != "" && m.short {
			// the short timeout elapsed while the operation ran: the model takes the expiry transition
			m.stale, m.open = m.open, ""
			m.devSets++
			m.loose = m.loose || m.noChange
			res.Count("timeouts_observed_early", 1)
		}
		if id != m.open {
			key := "C06/slot-differs"
			if m.open == "" {
				key = "C06/left-registered-after-" + opClass(op)
			}
			res.Violate(key, "step %d (%s): registered transaction is %q, model says %q\n  sequence: %s", step, op, id, m.open, strings.Join(seq, " "))
		} else if id != "" && !armed {
			res.Violate("C06/timer-not-running-after-"+opClass(op), "step %d (%s): transaction %q is open but its rollback timer is not running\n  sequence: %s", step, op, id, strings.Join(seq, " "))
		}
		if n := ds.Dev.NumSets(); m.loose && (n == m.devSets || n == m.devSets-1) {
			// a transaction without a change (or its rollback): whether an empty Set reaches the device is not stated
			m.devSets = n
		} else if n != m.devSets {
			res.Violate("C06/device-traffic-after-"+opClass(op), "step %d (%s): device saw %d Set calls, model expects %d\n  sequence: %s", step, op, n, m.devSets, strings.Join(seq, " "))
			m.devSets = n
		}
	}
	// a Set gets the short timeout iff the next op that is a Wait or addresses the open id is a Wait
	shortFor := func(i int) bool {
		for _, op := range seq[i+1:] {
			switch op {
			case "W":
				return true
			case "Co", "Xo":
				return false
			}
		}
		return false
	}
	opensTx := false
	for i, op := range seq {
		if len(res.Findings) > 0 {
			break
		}
		res.Count("ops", 1)
		res.Count("op:"+op, 1)
		m.loose = false
		switch op[0] {
		case 'S':
			txn++
			id := fmt.Sprintf("tx%d", txn)
			tis := mkIntent(op, txn)
			if tis == nil {
				return
			}
			to := time.Hour
			short := shortFor(i)
			if short {
				to = shortTO
			}
			if op == "Se" {
				ds.Dev.FailNext = 1
			}
			cctx, cancel := context.WithTimeout(ctx, 5*time.Second)
			if m.open != "" {
				cancel()
				cctx, cancel = context.WithTimeout(ctx, 60*time.Millisecond)
			}
			var rsp *sdcpb.TransactionSetResponse
			var err error
			if apiCall(res, "TransactionSet", func() { rsp, err = ds.TransactionSet(cctx, id, tis, nil, to, op == "Sd") }) {
				cancel()
				return
			}
			cancel()
			ds.Dev.FailNext = 0
			hasErrs := false
			for _, ir := range rsp.GetIntents() {
				if len(ir.GetErrors()) > 0 {
					hasErrs = true
				}
			}
			if m.open != "" {
				if !errors.Is(err, datastore.ErrDatastoreLocked) {
					res.Violate("C06/set-while-open-not-refused", "step %d (%s): Set while %q is open returned err=%v rsp=%v\n  sequence: %s", i, op, m.open, err, rsp != nil, strings.Join(seq, " "))
				}
				res.Count("set_refused_while_open", 1)
			} else {
				switch op {
				case "Sv":
					if err != nil || hasErrs {
						res.Inconclusive("C06/valid-set-failed", "step %d: %v %v", i, err, rsp.GetIntents())
						return
					}
					m.open, m.short = id, short
					m.noChange = false
					m.devSets++
					opensTx = true
				case "Sn":
					if err == nil && !hasErrs {
						m.open, m.short = id, short
						m.noChange, m.loose = true, true
						m.devSets++
						opensTx = true
						res.Count("no_change_transactions_opened", 1)
					} else {
						res.Count("no_change_transactions_refused", 1)
					}
				case "Si", "Sj", "Sr":
					if err == nil && !hasErrs {
						res.Violate("C06/invalid-accepted", "step %d: invalid intent accepted", i)
					}
					if err == nil && hasErrs {
						res.Count("validation_failures", 1)
					}
				case "Sd":
					if err != nil {
						res.Inconclusive("C06/dry-run-failed", "step %d: %v", i, err)
						return
					}
				case "Se":
					if err == nil {
						res.Violate("C06/device-error-swallowed", "step %d: device rejected the change but TransactionSet returned success", i)
					}
					m.devSets++ // the failed attempt was seen by the device
				}
			}
			observe(i, op)
		case 'C', 'X':
			var id string
			switch op[1] {
			case 'o':
				id = m.open
				if id == "" {
					id = "none-open"
				}
			case 'x':
				id = "someone-else"
			case 's':
				id = m.stale
				if id == "" {
					id = "tx0"
				}
			}
			var err error
			if op[0] == 'C' {
				if apiCall(res, "TransactionConfirm", func() { err = ds.TransactionConfirm(ctx, id) }) {
					return
				}
			} else {
				if apiCall(res, "TransactionCancel", func() { err = ds.TransactionCancel(ctx, id) }) {
					return
				}
			}
			right := m.open != "" && id == m.open
			if right {
				if err != nil {
					res.Violate("C06/right-id-"+opClass(op)+"-failed", "step %d (%s %s): %v\n  sequence: %s", i, op, id, err, strings.Join(seq, " "))
				} else {
					m.stale = m.open
					m.open = ""
					if op[0] == 'X' {
						m.devSets++ // the rollback
						m.loose = m.noChange
					}
				}
			} else {
				if err == nil {
					res.Violate("C06/wrong-id-"+opClass(op)+"-succeeded", "step %d (%s %s) with open=%q returned success\n  sequence: %s", i, op, id, m.open, strings.Join(seq, " "))
				}
				res.Count("wrong_id_ops", 1)
			}
			observe(i, op)
		case 'W':
			if m.open != "" && m.short {
				deadline := time.Now().Add(10 * time.Second)
				freed := false
				for time.Now().Before(deadline) {
					if id, _ := ds.VerifOpenTransaction(); id == "" {
						freed = true
						break
					}
					time.Sleep(2 * time.Millisecond)
				}
				if !freed {
					res.Violate("C06/not-released-by-timeout", "step %d: transaction %q still registered 10 s after a %v timeout\n  sequence: %s", i, m.open, shortTO, strings.Join(seq, " "))
					return
				}
				res.Count("timeouts_observed", 1)
				m.stale = m.open
				m.open = ""
				m.devSets++ // the rollback
				m.loose = m.noChange
				// the timer goroutine releases the slot after the rollback has been applied; give the device counter a moment
				time.Sleep(2 * time.Millisecond)
			} else {
				time.Sleep(time.Millisecond)
			}
			observe(i, op)
		}
	}
	res.NonTrivial = opensTx && len(seq) >= 2
	if len(res.Findings) > 0 {
		return
	}
	// the datastore must still be usable: release a still open transaction the regular way, then a fresh Set must be accepted
	if m.open != "" {
		if err := ds.TransactionCancel(ctx, m.open); err != nil {
			res.Violate("C06/final-cancel-failed", "cancel of the open transaction %q failed: %v\n  sequence: %s", m.open, err, strings.Join(seq, " "))
			return
		}
	}
	tis := mkIntent("Sv", 999)
	cctx, cancel := context.WithTimeout(ctx, 2*time.Second)
	defer cancel()
	var err error
	var rsp *sdcpb.TransactionSetResponse
	if apiCall(res, "TransactionSet(final)", func() { rsp, err = ds.TransactionSet(cctx, "final", tis, nil, time.Hour, false) }) {
		return
	}
	if err != nil {
		res.Violate("C06/wedged", "after the sequence a fresh TransactionSet is refused: %v\n  sequence: %s", err, strings.Join(seq, " "))
		return
	}
	_ = rsp
	ds.TransactionConfirm(ctx, "final")
}

func transactionHasErrors(rsp *sdcpb.TransactionSetResponse) bool {
	for _, ir := range rsp.GetIntents() {
		if len(ir.GetErrors()) > 0 {
			return true
		}
	}
	return false
}

func opClass(op string) string {
	switch op {
	case "Sv":
		return "set"
	case "Sn":
		return "set-without-change"
	case "Si", "Sj", "Sr":
		return "validation-failure"
	case "Sd":
		return "dry-run"
	case "Se":
		return "device-error"
	case "Co":
		return "confirm"
	case "Cx", "Cs":
		return "wrong-id-confirm"
	case "Xo":
		return "cancel"
	case "Xx", "Xs":
		return "wrong-id-cancel"
	case "W":
		return "wait"
	}
	return op
}
