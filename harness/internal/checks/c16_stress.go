package checks

import (
	"context"
	"fmt"
	"strings"
	"sync"
	"sync/atomic"
	"time"

	"github.com/anishathalye/porcupine"
	"github.com/sdcio/data-server/pkg/verifhook"
	sdcpb "github.com/sdcio/sdc-protos/sdcpb"

	"verifharness/internal/core"
	"verifharness/internal/fixture"
)

type slotOp struct {
	Kind string // set | confirm | cancel | expire
	ID   string
}

type histRec struct {
	mu  sync.Mutex
	ops []porcupine.Operation
	clk atomic.Int64
}

func (h *histRec) call() int64 { return h.clk.Add(1) }
func (h *histRec) ret(client int, in slotOp, out string, call int64) {
	r := h.clk.Add(1)
	h.mu.Lock()
	h.ops = append(h.ops, porcupine.Operation{ClientId: client, Input: in, Output: out, Call: call, Return: r})
	h.mu.Unlock()
}

// slotModel is the sequential specification of the transaction slot.
var slotPorcupineModel = porcupine.Model{
	Init: func() interface{} { return "" },
	Step: func(state, input, output interface{}) (bool, interface{}) {
		open := state.(string)
		in := input.(slotOp)
		out := output.(string)
		switch in.Kind {
		case "set":
			switch out {
			case "<nil>":
				return open == "", in.ID
			case "LOCKED":
				return true, open // refused: slot taken or the datastore busy with another action
			}
			return true, open
		case "confirm", "cancel":
			switch {
			case out == "<nil>":
				return open == in.ID, ""
			case out == "LOCKED":
				return true, open
			default:
				// an error answer claims that the id is not the open transaction
				return open != in.ID, open
			}
		case "expire":
			if open == in.ID {
				return true, ""
			}
			return true, open
		}
		return false, open
	},
	DescribeOperation: func(input, output interface{}) string {
		in := input.(slotOp)
		return fmt.Sprintf("%s(%s)->%s", in.Kind, in.ID, output)
	},
}

// runStress: free-running clients on one datastore, PRNG delays at the yield points, history -> porcupine.
func (c *c16) runStress(w *core.Worker, idx int, seed uint64, res *core.CaseResult) {
	rng := core.NewRng(seed)
	ds := c.env.NewDS(fixture.DSOpts{})
	defer ds.Close()
	ctx := context.Background()
	mk := func(owner, val string) *sdcpb.TransactionIntent {
		return &sdcpb.TransactionIntent{Intent: owner, Priority: 10, Update: []*sdcpb.Update{{Path: mustPb("/sys/descr"), Value: strTv(val)}}}
	}
	set := func(cctx context.Context, id, val string, to time.Duration) error {
		ti, err := ds.SdcpbTransactionIntentToInternalTI(ctx, mk("oa", val))
		if err != nil {
			return err
		}
		_, err = ds.TransactionSet(cctx, id, tisOf(ti), nil, to, false)
		return err
	}
	if err := set(ctx, "base", "v0", time.Hour); err != nil {
		res.Inconclusive("C16/setup", "%v", err)
		return
	}
	ds.TransactionConfirm(ctx, "base")

	h := &histRec{}
	// delays and expiry events at the yield points
	var dmu sync.Mutex
	drng := core.NewRng(seed ^ 0x5bd1e995)
	expCalls := sync.Map{}
	var expired sync.Map
	verifhook.Set(func(name string) {
		if strings.HasPrefix(name, "tree.") || strings.HasPrefix(name, "ds.sync") {
			return
		}
		if strings.HasPrefix(name, "tx.expired:") {
			id := name[len("tx.expired:"):]
			expCalls.Store(id, h.call())
			expired.Store(id, true)
		} else if strings.HasPrefix(name, "tx.expired.done:") {
			id := name[len("tx.expired.done:"):]
			if cv, ok := expCalls.Load(id); ok {
				h.ret(99, slotOp{"expire", id}, "", cv.(int64))
			}
			return
		}
		dmu.Lock()
		d := drng.Intn(400)
		dmu.Unlock()
		if d < 250 {
			time.Sleep(time.Duration(d) * time.Microsecond)
		}
	})
	defer verifhook.Set(nil)

	nClients := 3 + rng.Intn(4)
	var lastID atomic.Value
	lastID.Store("none")
	var txSeq atomic.Int64
	type setInfo struct {
		id, val string
		short   bool
		ret     int64
	}
	var smu sync.Mutex
	var sets []setInfo
	var panics []string
	var setErrs []string
	var wg sync.WaitGroup
	for cl := 0; cl < nClients; cl++ {
		crng := core.NewRng(seed + uint64(cl)*7919)
		nops := 2 + crng.Intn(3)
		wg.Add(1)
		go func(cl int) {
			defer wg.Done()
			defer func() {
				if r := recover(); r != nil {
					smu.Lock()
					panics = append(panics, fmt.Sprint(r))
					smu.Unlock()
				}
			}()
			for i := 0; i < nops; i++ {
				switch k := crng.Intn(10); {
				case k < 4:
					n := txSeq.Add(1)
					id := fmt.Sprintf("t%d", n)
					short := crng.Chance(1, 2)
					to := time.Hour
					if short {
						to = 2 * time.Millisecond
					}
					cctx, cancel := context.WithTimeout(ctx, 330*time.Millisecond)
					call := h.call()
					err := set(cctx, id, "v"+id, to)
					cancel()
					out := errClass(err)
					if out != "<nil>" && out != "LOCKED" {
						smu.Lock()
						setErrs = append(setErrs, out)
						smu.Unlock()
						out = "ERR"
					}
					if err == nil {
						lastID.Store(id)
					}
					h.ret(cl, slotOp{"set", id}, out, call)
					if err == nil {
						smu.Lock()
						sets = append(sets, setInfo{id, "v" + id, short, h.clk.Load()})
						smu.Unlock()
					}
				default:
					id := lastID.Load().(string)
					if crng.Chance(1, 5) {
						id = fmt.Sprintf("t%d", 1+crng.Intn(int(txSeq.Load())+1))
					}
					kind := "confirm"
					if k >= 7 {
						kind = "cancel"
					}
					call := h.call()
					var err error
					if kind == "confirm" {
						err = ds.TransactionConfirm(ctx, id)
					} else {
						err = ds.TransactionCancel(ctx, id)
					}
					out := errClass(err)
					if out != "<nil>" && out != "LOCKED" {
						out = "ERR"
					}
					h.ret(cl, slotOp{kind, id}, out, call)
				}
				time.Sleep(time.Duration(crng.Intn(1500)) * time.Microsecond)
			}
		}(cl)
	}
	done := make(chan struct{})
	go func() { wg.Wait(); close(done) }()
	select {
	case <-done:
	case <-time.After(20 * time.Second):
		res.Inconclusive("C16/stress-watchdog", "clients did not finish within 20 s")
		return
	}
	// quiescence: a short-timeout transaction that is still open expires; a long one is cancelled by the harness
	deadline := time.Now().Add(5 * time.Second)
	for time.Now().Before(deadline) {
		id, armed := ds.VerifOpenTransaction()
		if id == "" {
			break
		}
		isShort := false
		smu.Lock()
		for _, s := range sets {
			if s.id == id {
				isShort = s.short
			}
		}
		smu.Unlock()
		if !isShort {
			call := h.call()
			err := ds.TransactionCancel(ctx, id)
			out := errClass(err)
			if out != "<nil>" && out != "LOCKED" {
				out = "ERR"
			}
			h.ret(98, slotOp{"cancel", id}, out, call)
			continue
		}
		_ = armed
		time.Sleep(time.Millisecond)
	}
	time.Sleep(3 * time.Millisecond)
	verifhook.Set(nil)
	if id, _ := ds.VerifOpenTransaction(); id != "" {
		res.Violate("C16/stress-transaction-never-resolved", "transaction %s is still registered 5 s after the clients stopped", id)
	}
	for _, p := range panics {
		res.Violate("C16/panic-in-operation", "%s", p)
	}
	h.mu.Lock()
	ops := append([]porcupine.Operation{}, h.ops...)
	h.mu.Unlock()
	res.Count("stress_histories", 1)
	res.Count("stress_operations", len(ops))
	desc := make([]string, 0, len(ops))
	confirmOK, cancelOK := map[string]bool{}, map[string]bool{}
	for _, o := range ops {
		in := o.Input.(slotOp)
		desc = append(desc, fmt.Sprintf("c%d[%d,%d] %s(%s)->%s", o.ClientId, o.Call, o.Return, in.Kind, in.ID, o.Output))
		if o.Output == "<nil>" && in.Kind == "confirm" {
			confirmOK[in.ID] = true
		}
		if o.Output == "<nil>" && in.Kind == "cancel" {
			cancelOK[in.ID] = true
		}
	}
	r, _ := porcupine.CheckOperationsVerbose(slotPorcupineModel, ops, 10*time.Second)
	switch r {
	case porcupine.Illegal:
		res.Violate("C16/history-not-linearizable", "the recorded history has no sequential explanation by the transaction slot model:\n  %s", strings.Join(desc, "\n  "))
	case porcupine.Unknown:
		res.Inconclusive("C16/checker-timeout", "porcupine timed out on %d operations", len(ops))
	}
	// a Set that failed for another reason than the lock (its context ended while it was being processed) may have
	// been applied partly; the accounting below cannot attribute its traffic: inconclusive, decided by C07
	for _, o := range ops {
		if o.Input.(slotOp).Kind == "set" && o.Output == "ERR" {
			res.Inconclusive("C16/stress-set-failed-midway", "a TransactionSet failed while being processed (%v); device accounting skipped\n  %s", setErrs, strings.Join(desc, "\n  "))
			res.Hash = core.HashOf(desc...)
			return
		}
	}
	// exactly-once accounting at the device
	rollbacksSeen := 0
	seenVal := map[string]bool{"v0": true}
	for i, rec := range devSets(ds.Dev) {
		if i == 0 {
			continue // the baseline transaction
		}
		for _, u := range rec.Updates {
			if pathString(u.GetPath()) == "/sys/descr" {
				v := u.GetValue().GetStringVal()
				if seenVal[v] {
					rollbacksSeen++
				}
				seenVal[v] = true
			}
		}
	}
	wantRollbacks := 0
	lastKept := "v0"
	smu.Lock()
	for _, s := range sets {
		_, exp := expired.Load(s.id)
		switch {
		case confirmOK[s.id] && cancelOK[s.id]:
			res.Violate("C16/confirm-and-cancel-both-succeeded", "transaction %s\n  %s", s.id, strings.Join(desc, "\n  "))
		case confirmOK[s.id]:
			lastKept = s.val
		case cancelOK[s.id]:
			wantRollbacks++
		case exp:
			wantRollbacks++
			res.Count("stress_expiries", 1)
		default:
			res.Violate("C16/stress-unresolved", "transaction %s was applied but neither confirmed, cancelled nor expired\n  %s", s.id, strings.Join(desc, "\n  "))
		}
	}
	nsets := len(sets)
	smu.Unlock()
	res.Count("stress_transactions_applied", nsets)
	if rollbacksSeen != wantRollbacks {
		res.Violate("C16/stress-rollback-count", "device saw %d rollbacks, the answers imply %d\n  %s", rollbacksSeen, wantRollbacks, strings.Join(desc, "\n  "))
	}
	if dv := ds.Dev.Snapshot()["/sys/descr"]; dv != lastKept {
		res.Violate("C16/stress-final-state", "device has /sys/descr=%s, the last kept transaction wrote %s\n  %s", dv, lastKept, strings.Join(desc, "\n  "))
	}
	res.Hash = core.HashOf(desc...)
	res.NonTrivial = nsets >= 1 && len(ops) >= 4
	if idx == 0 {
		res.Sample = map[string]any{"stress_history": desc}
	}
}
