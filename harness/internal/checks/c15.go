package checks

import (
	"context"
	"fmt"
	"sort"
	"strings"

	"github.com/sdcio/cache/proto/cachepb"
	"github.com/sdcio/data-server/pkg/cache"
	sdcpb "github.com/sdcio/sdc-protos/sdcpb"
	"google.golang.org/protobuf/proto"

	"verifharness/internal/core"
	"verifharness/internal/fixture"
	"verifharness/internal/model"
)

// C15: deviation reports are exact.

type c15 struct {
	env *fixture.Env
}

func init() { core.Register(&c15{}) }

func (c *c15) ID() string    { return "C15" }
func (c *c15) Level() string { return "exploration" }
func (c *c15) NumCases(tier string) int {
	if tier == "thorough" {
		return 20000
	}
	return 800
}
func (c *c15) Rule() string {
	return "one case = one pair of store contents written directly through the cache client: for 4-14 leaves (string, uint, boolean, enumeration, decimal64, identityref, leaf-list; inside plain containers and list entries) a PRNG combination of 0-3 intents with distinct priorities (equal or different values) and a running value that agrees with the ruler, differs, agrees with a lower intent only, or is missing; one deviation cycle (hook VerifDeviationCycle) is run against a recording fake stream and the multiset of (reason, intent, path, expected, current) between START and END is compared with the reference computed from the statement. distinct = store contents; non-trivial = at least one path with >= 2 intents of different value and one path missing in running"
}
func (c *c15) Assumptions() []string {
	return []string{
		"both stores hold typed values as the server itself writes them (intents after conversion to the YANG type, running after sync conversion)",
		"values are compared in lexical form of the typed value",
	}
}
func (c *c15) Setup(w *core.Worker) error {
	fixture.Quiet()
	env, err := fixture.NewEnv(w.Scratch)
	c.env = env
	return err
}

type devLeaf struct {
	path string
	mk   func(i int) *sdcpb.TypedValue
}

func tvU(n uint64) *sdcpb.TypedValue {
	return &sdcpb.TypedValue{Value: &sdcpb.TypedValue_UintVal{UintVal: n}}
}
func tvB(b bool) *sdcpb.TypedValue {
	return &sdcpb.TypedValue{Value: &sdcpb.TypedValue_BoolVal{BoolVal: b}}
}
func tvD(d int64, p uint32) *sdcpb.TypedValue {
	return &sdcpb.TypedValue{Value: &sdcpb.TypedValue_DecimalVal{DecimalVal: &sdcpb.Decimal64{Digits: d, Precision: p}}}
}
func tvLL(e ...string) *sdcpb.TypedValue {
	arr := &sdcpb.ScalarArray{}
	for _, x := range e {
		arr.Element = append(arr.Element, strTv(x))
	}
	return &sdcpb.TypedValue{Value: &sdcpb.TypedValue_LeaflistVal{LeaflistVal: arr}}
}

var c15Leaves = []devLeaf{
	{"/sys/descr", func(i int) *sdcpb.TypedValue { return strTv([]string{"a", "b", "c"}[i%3]) }},
	{"/sys/name", func(i int) *sdcpb.TypedValue { return strTv([]string{"r1", "r2", "r3"}[i%3]) }},
	{"/sys/mtu", func(i int) *sdcpb.TypedValue { return tvU(uint64(1400 + i%3)) }},
	{"/sys/mtu-max", func(i int) *sdcpb.TypedValue { return tvU(uint64(9000 + i%3)) }},
	{"/sys/log/level", func(i int) *sdcpb.TypedValue { return strTv([]string{"info", "warn", "err"}[i%3]) }},
	{"/if[name=e1]/mtu", func(i int) *sdcpb.TypedValue { return tvU(uint64(1000 + i%3)) }},
	{"/if[name=e1]/enabled", func(i int) *sdcpb.TypedValue { return tvB(i%2 == 0) }},
	{"/if[name=e10]/mtu", func(i int) *sdcpb.TypedValue { return tvU(uint64(1000 + i%3)) }},
	{"/if[name=e1]/unit[id=1]/descr", func(i int) *sdcpb.TypedValue { return strTv([]string{"u", "v", "w"}[i%3]) }},
	{"/peer[name=n1][zone=z1]/as", func(i int) *sdcpb.TypedValue { return tvU(uint64(65000 + i%3)) }},
	{"/types/d2", func(i int) *sdcpb.TypedValue { return tvD(int64(150+i%3), 2) }},
	// the same datum in several representations (1.5 = 1.500): they agree, only 2.5 differs
	{"/types/d18", func(i int) *sdcpb.TypedValue {
		return [](*sdcpb.TypedValue){tvD(15, 1), tvD(1500, 3), tvD(25, 1)}[i%3]
	}},
	{"/types/u64", func(i int) *sdcpb.TypedValue { return tvU(18446744073709551613 + uint64(i%3)) }},
	{"/types/en", func(i int) *sdcpb.TypedValue { return strTv([]string{"one", "two", "t-h-r-e-e"}[i%3]) }},
	{"/types/bool", func(i int) *sdcpb.TypedValue { return tvB(i%2 == 1) }},
	{"/sys/dns", func(i int) *sdcpb.TypedValue {
		return [](*sdcpb.TypedValue){tvLL("a"), tvLL("a", "b"), tvLL("b", "a")}[i%3]
	}},
	{"/ifx", func(i int) *sdcpb.TypedValue { return strTv([]string{"s", "t", "u"}[i%3]) }},
	{"/types/idref", func(i int) *sdcpb.TypedValue {
		id := []string{"id-one", "id-two", "id-three"}[i%3]
		return &sdcpb.TypedValue{Value: &sdcpb.TypedValue_IdentityrefVal{IdentityrefVal: &sdcpb.IdentityRef{Value: id, Prefix: model.IdentityModule[id], Module: model.IdentityModule[id]}}}
	}},
	{"/types/i64", func(i int) *sdcpb.TypedValue {
		return &sdcpb.TypedValue{Value: &sdcpb.TypedValue_IntVal{IntVal: []int64{-9223372036854775808, -1, 9223372036854775807}[i%3]}}
	}},
	{"/types/ll-u64", func(i int) *sdcpb.TypedValue {
		mk := func(vs ...uint64) *sdcpb.TypedValue {
			arr := &sdcpb.ScalarArray{}
			for _, v := range vs {
				arr.Element = append(arr.Element, tvU(v))
			}
			return &sdcpb.TypedValue{Value: &sdcpb.TypedValue_LeaflistVal{LeaflistVal: arr}}
		}
		return [](*sdcpb.TypedValue){mk(1), mk(1, 18446744073709551615), mk(18446744073709551615, 1)}[i%3]
	}},
}

type devMsg struct {
	reason, intent, path, expected, current string
}

func (m devMsg) String() string {
	return fmt.Sprintf("%s intent=%q path=%s expected=%s current=%s", m.reason, m.intent, m.path, m.expected, m.current)
}

func (c *c15) RunCase(w *core.Worker, idx int, seed uint64, res *core.CaseResult) {
	rng := core.NewRng(seed)
	ds := c.env.NewDS(fixture.DSOpts{})
	defer ds.Close()
	ctx := context.Background()
	owners := []struct {
		name string
		prio int32
	}{{"oa", 10}, {"ob", 20}, {"oc", 30}, {"od", 30}}
	// (od has the priority of oc: two intents of equal precedence; od only joins paths that a better intent defines as
	// well, so that the ruling intent is never a tie)
	// several cycles on ONE datastore object: between the cycles the stores are rewritten (values change, paths
	// disappear from running, intents come and go), so anything the datastore carries over from one cycle to the next shows
	multi, missing := false, false
	var allStates []string
	prevIntended := map[string][][]string{}
	var prevRunning [][]string
	for round := 0; round < 3 && len(res.Findings) == 0; round++ {
		nLeaves := 4 + rng.Intn(11)
		perm := rng.Perm(len(c15Leaves))
		var want []devMsg
		state := []string{}
		intended := map[string][]*cache.Update{} // owner -> updates
		var running []*cache.Update
		// remove what the previous round wrote
		for _, o := range owners {
			if len(prevIntended[o.name]) > 0 {
				if err := c.env.Cache.Modify(ctx, ds.Name, &cache.Opts{Store: cachepb.Store_INTENDED, Owner: o.name, Priority: o.prio}, prevIntended[o.name], nil); err != nil {
					res.Inconclusive("C15/setup", "%v", err)
					return
				}
			}
		}
		if len(prevRunning) > 0 {
			if err := c.env.Cache.Modify(ctx, ds.Name, &cache.Opts{Store: cachepb.Store_CONFIG}, prevRunning, nil); err != nil {
				res.Inconclusive("C15/setup", "%v", err)
				return
			}
		}
		prevIntended, prevRunning = map[string][][]string{}, nil
		mkUpd := func(path string, tv *sdcpb.TypedValue) *cache.Update {
			b, _ := proto.Marshal(tv)
			return cache.NewUpdate(strings.Split(model.CachePath(model.Parse(path)), ","), b, 0, "", 0)
		}
		for li := 0; li < nLeaves && li < len(perm); li++ {
			l := c15Leaves[perm[li]]
			nint := rng.Intn(4)
			vals := map[string]int{}
			ownerPerm := rng.Perm(3)
			for i := 0; i < nint; i++ {
				o := owners[ownerPerm[i]]
				vals[o.name] = rng.Intn(3)
			}
			if _, a := vals["oa"]; a || func() bool { _, b := vals["ob"]; return b }() {
				if rng.Chance(1, 3) {
					vals["od"] = rng.Intn(3)
				}
			}
			// running: 0 agrees with ruler, 1 differs from all, 2 agrees with some value, 3 missing
			rmode := rng.Intn(4)
			var ruler string
			for _, o := range owners {
				if _, ok := vals[o.name]; ok {
					ruler = o.name
					break
				}
			}
			var rv *sdcpb.TypedValue
			switch {
			case rmode == 3:
				missing = missing || nint > 0
			case ruler == "" || rmode == 1:
				rv = l.mk(rng.Intn(3))
			case rmode == 0:
				rv = l.mk(vals[ruler])
			default:
				rv = l.mk(rng.Intn(3))
			}
			if ruler == "" && rv == nil {
				continue
			}
			desc := l.path + " intents{"
			for _, o := range owners {
				if vi, ok := vals[o.name]; ok {
					tv := l.mk(vi)
					intended[o.name] = append(intended[o.name], mkUpd(l.path, tv))
					desc += fmt.Sprintf("%s(p%d)=%s ", o.name, o.prio, model.TvString(tv))
				}
			}
			desc += "} running="
			if rv != nil {
				running = append(running, mkUpd(l.path, rv))
				desc += model.TvString(rv)
			} else {
				desc += "<missing>"
			}
			state = append(state, desc)
			// reference
			p := model.Parse(l.path).String()
			if ruler == "" {
				want = append(want, devMsg{"UNHANDLED", "", p, "<nil>", model.TvString(rv)})
				continue
			}
			rulerVal := model.TvString(l.mk(vals[ruler]))
			cur := "<nil>"
			if rv != nil {
				cur = model.TvString(rv)
			}
			if rv == nil || cur != rulerVal {
				want = append(want, devMsg{"NOT_APPLIED", ruler, p, rulerVal, cur})
			}
			distinctVals := map[string]bool{}
			for _, o := range owners {
				vi, ok := vals[o.name]
				if !ok || o.name == ruler {
					continue
				}
				v := model.TvString(l.mk(vi))
				distinctVals[v] = true
				if v != rulerVal {
					want = append(want, devMsg{"OVERRULED", o.name, p, v, rulerVal})
					multi = true
				}
			}
		}
		for _, o := range owners {
			if len(intended[o.name]) > 0 {
				if err := c.env.Cache.Modify(ctx, ds.Name, &cache.Opts{Store: cachepb.Store_INTENDED, Owner: o.name, Priority: o.prio}, nil, intended[o.name]); err != nil {
					res.Inconclusive("C15/setup", "%v", err)
					return
				}
			}
		}
		if len(running) > 0 {
			if err := c.env.Cache.Modify(ctx, ds.Name, &cache.Opts{Store: cachepb.Store_CONFIG}, nil, running); err != nil {
				res.Inconclusive("C15/setup", "%v", err)
				return
			}
		}
		for _, o := range owners {
			for _, u := range intended[o.name] {
				prevIntended[o.name] = append(prevIntended[o.name], u.GetPath())
			}
		}
		for _, u := range running {
			prevRunning = append(prevRunning, u.GetPath())
		}
		sort.Strings(state)
		res.Tracef("cycle %d", round)
		for _, s := range state {
			res.Tracef("%s", s)
		}
		st := fixture.NewFakeStream[*sdcpb.WatchDeviationResponse](ctx)
		// other watchers of the same datastore: a second healthy one (must get the same reports) and clients that went
		// away while they are still in the cycle's set of watchers (their failing Send is their problem alone)
		watchers := map[string]sdcpb.DataServer_WatchDeviationsServer{"peer": st}
		var twin *fixture.FakeStream[*sdcpb.WatchDeviationResponse]
		var others []*fixture.FakeStream[*sdcpb.WatchDeviationResponse]
		if (idx+round)%4 == 1 || (idx+round)%4 == 3 {
			twin = fixture.NewFakeStream[*sdcpb.WatchDeviationResponse](ctx)
			watchers["twin"] = twin
			others = append(others, twin)
		}
		if (idx+round)%4 >= 2 {
			for i, name := range []string{"a-gone", "q-gone", "z-gone"} {
				d := fixture.NewFakeStream[*sdcpb.WatchDeviationResponse](ctx)
				d.FailAtSend = 1 + i
				watchers[name] = d
				others = append(others, d)
			}
			res.Count("cycles_with_failing_watchers", 1)
		}
		panicked := apiCall(res, "deviation cycle", func() {
			ds.VerifDeviationCycle(ctx, watchers)
		})
		st.Cancel()
		for _, o := range others {
			o.Cancel()
		}
		if panicked {
			return
		}
		msgs := st.Sent
		if twin != nil {
			res.Count("cycles_with_two_healthy_watchers", 1)
			a, b := map[string]int{}, map[string]int{}
			for _, m := range msgs {
				a[m.String()]++
			}
			for _, m := range twin.Sent {
				b[m.String()]++
			}
			for k, n := range a {
				if b[k] != n {
					res.Violate("C15/watchers-get-different-reports", "a second watcher of the same datastore got %d instead of %d times: %s", b[k], n, k)
					break
				}
			}
			if len(twin.Sent) != len(msgs) {
				res.Violate("C15/watchers-get-different-reports", "one watcher got %d messages, the other %d", len(msgs), len(twin.Sent))
			}
		}
		res.Count("cycles", 1)
		res.Count("messages", len(msgs))
		if len(msgs) == 0 || msgs[0].GetEvent() != sdcpb.DeviationEvent_START {
			res.Violate("C15/no-start-first", "the cycle does not begin with START (%d messages)", len(msgs))
		}
		if len(msgs) == 0 || msgs[len(msgs)-1].GetEvent() != sdcpb.DeviationEvent_END {
			res.Violate("C15/no-end-last", "the cycle does not finish with END (%d messages)", len(msgs))
		}
		var got []devMsg
		for i, m := range msgs {
			switch m.GetEvent() {
			case sdcpb.DeviationEvent_START, sdcpb.DeviationEvent_END:
				if i != 0 && i != len(msgs)-1 {
					res.Violate("C15/bracket-in-the-middle", "message %d is %s", i, m.GetEvent())
				}
				continue
			}
			if m.GetName() != ds.Name {
				res.Violate("C15/wrong-datastore-name", "message names datastore %q", m.GetName())
			}
			exp, cur := "<nil>", "<nil>"
			if m.GetExpectedValue() != nil {
				exp = model.TvString(m.GetExpectedValue())
			}
			if m.GetCurrentValue() != nil {
				cur = model.TvString(m.GetCurrentValue())
			}
			got = append(got, devMsg{m.GetReason().String(), m.GetIntent(), model.FromPb(m.GetPath()).String(), exp, cur})
		}
		count := func(l []devMsg) map[devMsg]int {
			m := map[devMsg]int{}
			for _, x := range l {
				m[x]++
			}
			return m
		}
		gw, gg := count(want), count(got)
		for m, n := range gw {
			if gg[m] < n {
				key := "C15/deviation-not-reported/" + m.reason
				// is there a message for the same reason, intent and path with other values?
				for g := range gg {
					if g.reason == m.reason && g.intent == m.intent && g.path == m.path && g != m {
						key = "C15/deviation-reported-with-wrong-values/" + m.reason
					}
				}
				res.Violate(key, "expected %s\n  stores: %s\n  reported: %v", m, strings.Join(state, " | "), got)
			}
		}
		for m, n := range gg {
			if gw[m] < n {
				if matchedWithOtherValues(m, gw) {
					continue // already reported above
				}
				res.Violate("C15/spurious-deviation/"+m.reason, "reported %s which is no deviation by the statement\n  stores: %s", m, strings.Join(state, " | "))
			}
		}
		res.Count("deviations_expected", len(want))
		allStates = append(allStates, fmt.Sprintf("cycle %d", round))
		allStates = append(allStates, state...)
		if idx < 2 && round == 0 {
			w := []string{}
			for _, m := range want {
				w = append(w, m.String())
			}
			res.Sample = map[string]any{"stores": state, "expected": w}
		}
	}
	res.Hash = core.HashOf(allStates...)
	res.NonTrivial = multi && missing
}

func matchedWithOtherValues(m devMsg, want map[devMsg]int) bool {
	for w := range want {
		if w.reason == m.reason && w.intent == m.intent && w.path == m.path {
			return true
		}
	}
	return false
}
