package checks

import (
	"context"
	"encoding/json"
	"fmt"
	"math/big"
	"sort"
	"strings"
	"time"

	gnmi "github.com/openconfig/gnmi/proto/gnmi"
	"github.com/sdcio/cache/proto/cachepb"
	"github.com/sdcio/data-server/pkg/cache"
	"github.com/sdcio/data-server/pkg/config"
	"github.com/sdcio/data-server/pkg/datastore"
	schemaClient "github.com/sdcio/data-server/pkg/datastore/clients/schema"
	"github.com/sdcio/data-server/pkg/datastore/target"
	"github.com/sdcio/data-server/pkg/server"
	"github.com/sdcio/data-server/pkg/utils"
	sdcpb "github.com/sdcio/sdc-protos/sdcpb"

	"verifharness/internal/core"
	"verifharness/internal/fixture"
	"verifharness/internal/model"
)

// C12: values survive every conversion unchanged.

type c12 struct {
	h     *hist
	gd    *c14
	cases []c12Case
	// gdev / gtg: a gNMI device on loopback and the production gNMI target connected to it (forms gnmi-*)
	gdev *fixture.GNMIDevice
	gtg  target.Target
	// wires: production gNMI targets (proto, json, json_ietf) with a gNMI device each; every tree is handed to them too
	wires   []fixture.Forwarder
	wireErr string
}

func init() { core.Register(&c12{}) }

type c12Case struct {
	leaf string // leaf name under /types
	val  string // lexical value ("LL:..." for leaf-lists)
	form string // typed | string | json | json_ietf
}

var c12Values = map[string][]string{
	"i8": {"-128", "-1", "0", "127"}, "i16": {"-32768", "32767", "5"}, "i32": {"-2147483648", "2147483647", "-7"},
	"i64": {"-9223372036854775808", "9223372036854775807", "-1", "0"},
	"u8":  {"0", "255", "7"}, "u16": {"0", "65535"}, "u32": {"0", "4294967295"},
	"u64":  {"0", "9223372036854775807", "9223372036854775808", "18446744073709551615"},
	"d1":   {"-0.1", "0.5", "922337203685477580.7", "-922337203685477580.8", "3.0"},
	"d2":   {"1.50", "-1.5", "0.01", "-0.01", "100.00", "7"},
	"d18":  {"0.000000000000000001", "-9.223372036854775808", "1.5"},
	"bool": {"true", "false"}, "emp": {"EMPTY"},
	"str":    {"a b", "x", "Zürich", "1.50", "true"},
	"en":     {"one", "two", "t-h-r-e-e"},
	"idref":  {"id-one", "id-two", "id-three"},
	"un1":    {"5", "255", "256", "auto", "none", "zzz"},
	"un2":    {"-5", "2147483647", "1.5", "1.50", "2147483648"},
	"bits":   {"b0", "b0 b7"},
	"bin":    {"aGVsbG8="},
	"lr":     {"5"},
	"pct":    {"0", "100"},
	"iid":    {"/vfa:sys/vfa:name", "/vfa:if[vfa:name='e1']/vfa:mtu", "/vfa:sys/vfb:b-leaf"},
	"ll-str": {"LL:a,b", "LL:b,a", "LL:x"}, "ll-u64": {"LL:18446744073709551615,1"}, "ll-i8": {"LL:-128,127"}, "ll-d2": {"LL:1.50,-0.25"},
	"ll-en": {"LL:one,two"}, "ll-idref": {"LL:id-one,id-three"}, "ll-bool": {"LL:true,false"},
}

func (c *c12) build() {
	if c.cases != nil {
		return
	}
	// a long value, a value with every kind of blank, and one with characters that need escaping in XML and JSON
	c12Values["str"] = append(c12Values["str"], strings.Repeat("0123456789abcdef", 512), " lead and trail ", "a<b>&\"c\"'d'\\e")
	leaves := make([]string, 0, len(c12Values))
	for l := range c12Values {
		leaves = append(leaves, l)
	}
	sort.Strings(leaves)
	for _, l := range leaves {
		for _, v := range c12Values[l] {
			for _, f := range []string{"typed", "string", "json", "json_ietf", "xml", "gnmi-typed", "gnmi-string", "gnmi-json", "gnmi-json_ietf"} {
				c.cases = append(c.cases, c12Case{l, v, f})
			}
		}
	}
}

func (c *c12) ID() string    { return "C12" }
func (c *c12) Level() string { return "exploration" }
func (c *c12) NumCases(tier string) int {
	c.build()
	if tier == "thorough" {
		return len(c.cases) + 3000
	}
	return len(c.cases)
}
func (c *c12) Exhaustive(tier string) bool { return tier == "quick" }
func (c *c12) Rule() string {
	return "cases = the cross product (enumerated completely in the quick tier) of the leaf types of the verification schema (int8..int64, uint8..uint64, decimal64 with fraction-digits 1/2/18, boolean, empty, string, enumeration, identityref over two modules, two unions, bits, binary, leafref, typedef, and a leaf-list of each scalar kind) x boundary values (min, max, 0, -1, 2^63, 2^64-1, fractional/negative decimals, every enum/identity/union member) x input form {typed value, string, inside a JSON document, inside a JSON_IETF document}; the thorough tier adds PRNG interior values. Each case is one transaction on a fresh datastore; every place the value shows up - proto typed value, gNMI typed value (utils.ToGNMITypedValue), JSON, JSON_IETF, XML text at the device, the stored intended and running value, GetData in STRING/PROTO/JSON/JSON_IETF - is mapped by an independent per-type canonicaliser (math/big) to a datum and compared with the datum supplied; then the same datum in another representation must be a no-op, and an adjacent different datum as well as (decimal64) the datum with the same digits and the decimal point shifted by one place must be an update. distinct = (leaf, value, form); non-trivial = every case (each observes >= 8 representations)"
}
func (c *c12) Assumptions() []string {
	return []string{
		"the canonicaliser in harness/internal/model/codec.go (type table hand-written from the YANG) is the reference; union members resolve in declaration order",
		"JSON numbers are read with json.Number (no float rounding); identityrefs are compared by identity name, the module prefix is checked separately where the encoding carries one",
	}
}
func (c *c12) Setup(w *core.Worker) error {
	fixture.Quiet()
	c.build()
	env, err := fixture.NewEnv(w.Scratch)
	if err != nil {
		return err
	}
	c.h = &hist{env: env, owners: []string{"oa"}}
	c.gd = &c14{h: c.h}
	for _, enc := range []string{"proto", "json", "json_ietf"} {
		f, err := gnmiForwarder(enc)
		if err != nil {
			// no loopback gRPC here: the wire observations are skipped (and counted)
			c.wires = nil
			c.wireErr = fmt.Sprintf("gNMI wire fixture (%s): %v", enc, err)
			break
		}
		c.wires = append(c.wires, f)
	}
	if c.gdev, err = fixture.NewGNMIDevice(); err != nil {
		c.gdev, c.wireErr = nil, fmt.Sprintf("gNMI device: %v", err)
		return nil
	}
	sbi := &config.SBI{Type: "gnmi", Address: "127.0.0.1", Port: c.gdev.Port(), GnmiOptions: &config.SBIGnmiOptions{Encoding: "proto"}}
	if c.gtg, err = target.New(context.Background(), "c12g", sbi, nil); err != nil {
		c.gdev, c.wireErr = nil, fmt.Sprintf("gNMI target: %v", err)
	}
	return nil
}

// toGnmiTv is the value as a gNMI device carries it (written from the gNMI specification, not from the code under test).
func toGnmiTv(tv *sdcpb.TypedValue) *gnmi.TypedValue {
	switch v := tv.GetValue().(type) {
	case *sdcpb.TypedValue_IntVal:
		return &gnmi.TypedValue{Value: &gnmi.TypedValue_IntVal{IntVal: v.IntVal}}
	case *sdcpb.TypedValue_UintVal:
		return &gnmi.TypedValue{Value: &gnmi.TypedValue_UintVal{UintVal: v.UintVal}}
	case *sdcpb.TypedValue_BoolVal:
		return &gnmi.TypedValue{Value: &gnmi.TypedValue_BoolVal{BoolVal: v.BoolVal}}
	case *sdcpb.TypedValue_DecimalVal:
		return &gnmi.TypedValue{Value: &gnmi.TypedValue_DecimalVal{DecimalVal: &gnmi.Decimal64{Digits: v.DecimalVal.GetDigits(), Precision: v.DecimalVal.GetPrecision()}}}
	case *sdcpb.TypedValue_StringVal:
		return &gnmi.TypedValue{Value: &gnmi.TypedValue_StringVal{StringVal: v.StringVal}}
	case *sdcpb.TypedValue_IdentityrefVal:
		return &gnmi.TypedValue{Value: &gnmi.TypedValue_StringVal{StringVal: v.IdentityrefVal.GetValue()}}
	case *sdcpb.TypedValue_BytesVal:
		return &gnmi.TypedValue{Value: &gnmi.TypedValue_BytesVal{BytesVal: v.BytesVal}}
	case *sdcpb.TypedValue_JsonVal:
		return &gnmi.TypedValue{Value: &gnmi.TypedValue_JsonVal{JsonVal: v.JsonVal}}
	case *sdcpb.TypedValue_JsonIetfVal:
		return &gnmi.TypedValue{Value: &gnmi.TypedValue_JsonIetfVal{JsonIetfVal: v.JsonIetfVal}}
	case *sdcpb.TypedValue_LeaflistVal:
		arr := &gnmi.ScalarArray{}
		for _, e := range v.LeaflistVal.GetElement() {
			arr.Element = append(arr.Element, toGnmiTv(e))
		}
		return &gnmi.TypedValue{Value: &gnmi.TypedValue_LeaflistVal{LeaflistVal: arr}}
	}
	return nil
}

// gnmiCase: the value comes from the device over gNMI. The gNMI device on loopback reports it (as a typed scalar, as a
// string, inside a JSON or JSON_IETF document); the production gNMI target fetches it with Get (gnmic client, gRPC,
// utils.ToSchemaNotification), the notification goes through the datastore's sync loop into the running store. The
// value the target hands on, the stored value and GetData must denote the datum the device reported.
func (c *c12) gnmiCase(cs c12Case, t model.TypeDef, want, desc string, res *core.CaseResult) {
	ctx := context.Background()
	if c.gdev == nil {
		res.Inconclusive("C12/gnmi/fixture-unavailable", "%s: %s", desc, c.wireErr)
		return
	}
	form := strings.TrimPrefix(cs.form, "gnmi-")
	if t.Kind == "empty" && (form == "typed" || form == "string") {
		// gNMI has no scalar for the YANG empty type: a device reports it inside a document
		form = "json_ietf"
	}
	su := c.mkUpdate(cs.leaf, cs.val, form)
	gv := toGnmiTv(su.GetValue())
	if gv == nil {
		res.Inconclusive("C12/generator", "%s: no gNMI representation for %T", desc, su.GetValue().GetValue())
		return
	}
	n := &gnmi.Notification{Timestamp: 1, Update: []*gnmi.Update{{Path: fixture.ToGPath(model.FromPb(su.GetPath())), Val: gv}}}
	if cs.leaf == "lr" {
		n.Update = append(n.Update, &gnmi.Update{Path: fixture.ToGPath(model.Parse("/types/u16")), Val: &gnmi.TypedValue{Value: &gnmi.TypedValue_StringVal{StringVal: cs.val}}})
	}
	c.gdev.SetGetNotifs([]*gnmi.Notification{n})
	var rsp *sdcpb.GetDataResponse
	var err error
	if apiCall(res, "gnmiTarget.Get", func() {
		rsp, err = c.gtg.Get(ctx, &sdcpb.GetDataRequest{Name: "c12g", Path: []*sdcpb.Path{mustPb("/types")}, DataType: sdcpb.DataType_CONFIG, Encoding: sdcpb.Encoding_PROTO, Datastore: &sdcpb.DataStore{Type: sdcpb.Type_MAIN}})
	}) {
		return
	}
	what := fmt.Sprintf("%s: device reports %s", desc, strings.TrimSpace(fixture.DescribeSet(&gnmi.SetRequest{Update: n.Update})))
	if err != nil {
		res.Violate(fmt.Sprintf("C12/valid-value-refused/%s/%s", cs.leaf, cs.form), "%s: Get fails: %v", what, err)
		return
	}
	res.Count("gnmi_get_replies", 1)
	leafPath := model.Parse("/types/" + cs.leaf).String()
	judge := func(where, lex string) {
		res.Count("representations_compared", 1)
		if t.Kind == "empty" && lex == "true" {
			lex = "EMPTY"
		}
		got, err := c.canon(cs.leaf, lex)
		if err != nil {
			res.Violate(fmt.Sprintf("C12/%s-is-no-valid-%s", where, t.Kind), "%s: %s carries %q: %v", what, where, lex, err)
			return
		}
		if got != want {
			res.Violate(fmt.Sprintf("C12/%s-denotes-another-value/%s", where, cs.leaf), "%s: %s carries %q which denotes %s, reported %s", what, where, lex, got, want)
		}
	}
	// the datastore's sync loop (one write worker: notifications are stored in order)
	ds := c.h.env.NewDS(fixture.DSOpts{Sync: &config.Sync{Validate: false, Buffer: 16, WriteWorkers: 1}})
	defer ds.Close()
	sctx, cancel := context.WithCancel(ctx)
	defer cancel()
	go ds.Sync(sctx)
	ch := ds.VerifSyncCh()
	for _, sn := range rsp.GetNotification() {
		ch <- &target.SyncUpdate{Update: sn}
	}
	ch <- &target.SyncUpdate{Update: &sdcpb.Notification{Update: []*sdcpb.Update{{Path: mustPb("/verif-barrier"), Value: kindTv("uint", "1")}}}}
	var cfg map[string]string
	if !waitFor(20*time.Second, func() bool {
		cfg, _ = fixture.DumpStore(ctx, c.h.env.Cache, ds.Name, cachepb.Store_CONFIG)
		_, ok := cfg["verif-barrier"]
		return ok
	}) {
		res.Inconclusive("C12/gnmi/barrier", "%s: the barrier notification was not stored within 20 s", what)
		return
	}
	found := false
	for k, v := range cfg {
		if cacheToCanon(k) == leafPath {
			found = true
			judge("running-store-after-gnmi-sync", v)
		}
	}
	if !found {
		res.Violate(fmt.Sprintf("C12/gnmi-input-lost/%s/%s", cs.leaf, form), "%s: the running store has no entry for the leaf after the sync: %v", what, cfg)
		return
	}
	srv := server.NewVerif(ctx, &config.Config{}, c.h.env.Schema, c.h.env.Cache, map[string]*datastore.Datastore{ds.Name: ds.Datastore})
	for _, enc := range []sdcpb.Encoding{sdcpb.Encoding_STRING, sdcpb.Encoding_JSON_IETF} {
		got := c.gd.get(srv, &sdcpb.GetDataRequest{Name: ds.Name, Path: []*sdcpb.Path{mustPb("/types/" + cs.leaf)}, DataType: sdcpb.DataType_CONFIG, Encoding: enc, Datastore: &sdcpb.DataStore{Type: sdcpb.Type_MAIN}})
		if got.err != nil {
			if strings.HasPrefix(got.err.Error(), "PANIC") {
				res.Inconclusive("api-panic", "%s: GetData %s: %v", what, enc, got.err)
			} else {
				res.Violate(fmt.Sprintf("C12/getdata-%s-fails/%s", enc, cs.leaf), "%s: %v", what, got.err)
			}
			continue
		}
		if v, ok := got.leaves[leafPath]; ok {
			judge("getdata-"+enc.String()+"-after-gnmi-sync", v)
		} else {
			res.Violate(fmt.Sprintf("C12/getdata-%s-lacks-the-leaf/%s", enc, cs.leaf), "%s: returned %v", what, got.leaves)
		}
	}
}

func isLL(leaf string) bool { return strings.HasPrefix(leaf, "ll-") }

// typedTv builds the value a client sends as a typed value.
func typedTv(t model.TypeDef, lex string) *sdcpb.TypedValue {
	switch t.Kind {
	case "int8", "int16", "int32", "int64":
		n, _ := new(big.Int).SetString(lex, 10)
		return &sdcpb.TypedValue{Value: &sdcpb.TypedValue_IntVal{IntVal: n.Int64()}}
	case "uint8", "uint16", "uint32", "uint64":
		n, _ := new(big.Int).SetString(lex, 10)
		return tvU(n.Uint64())
	case "decimal64":
		r, _ := new(big.Rat).SetString(lex)
		sc := new(big.Rat).Mul(r, new(big.Rat).SetInt(new(big.Int).Exp(big.NewInt(10), big.NewInt(int64(t.FD)), nil)))
		return tvD(sc.Num().Int64(), uint32(t.FD))
	case "boolean":
		return tvB(lex == "true")
	case "empty":
		return &sdcpb.TypedValue{Value: &sdcpb.TypedValue_EmptyVal{}}
	case "identityref":
		return &sdcpb.TypedValue{Value: &sdcpb.TypedValue_IdentityrefVal{IdentityrefVal: &sdcpb.IdentityRef{Value: lex, Prefix: model.IdentityModule[lex], Module: model.IdentityModule[lex]}}}
	case "union":
		for _, m := range t.Union {
			if _, err := model.Canon(m, lex); err == nil {
				return typedTv(m, lex)
			}
		}
	case "leafref":
		if t.Target != nil {
			return typedTv(*t.Target, lex)
		}
	}
	return strTv(lex)
}

func jsonVal(t model.TypeDef, lex string, ietf bool) any {
	switch t.Kind {
	case "int8", "int16", "int32", "uint8", "uint16", "uint32":
		return json.Number(lex)
	case "int64", "uint64", "decimal64":
		// JSON_IETF carries them as strings; plain JSON as numbers while a double can hold them exactly
		digits := strings.NewReplacer("-", "", ".", "").Replace(lex)
		if ietf || len(strings.TrimLeft(digits, "0")) > 15 {
			return lex
		}
		return json.Number(lex)
	case "boolean":
		return lex == "true"
	case "empty":
		if ietf {
			return []any{nil}
		}
		return map[string]any{}
	case "identityref":
		if ietf {
			return model.IdentityModule[lex] + ":" + lex
		}
		return lex
	case "union":
		for _, m := range t.Union {
			if _, err := model.Canon(m, lex); err == nil {
				return jsonVal(m, lex, ietf)
			}
		}
	case "leafref":
		if t.Target != nil {
			return jsonVal(*t.Target, lex, ietf)
		}
	}
	return lex
}

func jsonLex(v any) string {
	switch x := v.(type) {
	case nil:
		return "EMPTY"
	case string:
		return x
	case json.Number:
		return x.String()
	case float64:
		return fmt.Sprint(x)
	case bool:
		return fmt.Sprint(x)
	case map[string]any:
		if len(x) == 0 {
			return "EMPTY"
		}
	case []any:
		if len(x) == 1 && x[0] == nil {
			return "EMPTY"
		}
		el := []string{}
		for _, e := range x {
			el = append(el, jsonLex(e))
		}
		return "LL:" + strings.Join(el, ",")
	}
	return fmt.Sprintf("<?%v>", v)
}

func gnmiLex(tv *gnmi.TypedValue) string {
	if tv == nil {
		return "<nil>"
	}
	switch v := tv.Value.(type) {
	case *gnmi.TypedValue_StringVal:
		return v.StringVal
	case *gnmi.TypedValue_IntVal:
		return fmt.Sprint(v.IntVal)
	case *gnmi.TypedValue_UintVal:
		return fmt.Sprint(v.UintVal)
	case *gnmi.TypedValue_BoolVal:
		return fmt.Sprint(v.BoolVal)
	case *gnmi.TypedValue_DoubleVal:
		return new(big.Rat).SetFloat64(v.DoubleVal).FloatString(18)
	case *gnmi.TypedValue_DecimalVal:
		return model.DecimalString(v.DecimalVal.GetDigits(), v.DecimalVal.GetPrecision())
	case *gnmi.TypedValue_LeaflistVal:
		el := []string{}
		for _, e := range v.LeaflistVal.GetElement() {
			el = append(el, gnmiLex(e))
		}
		return "LL:" + strings.Join(el, ",")
	case *gnmi.TypedValue_BytesVal:
		return string(v.BytesVal)
	}
	return fmt.Sprintf("<?%T>", tv.Value)
}

func (c *c12) canon(leaf, lex string) (string, error) {
	t := model.LeafTypes[leaf]
	if isLL(leaf) {
		return model.CanonList(t, lex)
	}
	return model.Canon(t, lex)
}

func (c *c12) mkUpdate(leaf, val, form string) *sdcpb.Update {
	t := model.LeafTypes[leaf]
	path := "/types/" + leaf
	switch form {
	case "typed", "string":
		mk := func(lex string) *sdcpb.TypedValue {
			if form == "string" {
				if lex == "EMPTY" {
					return &sdcpb.TypedValue{Value: &sdcpb.TypedValue_EmptyVal{}}
				}
				return strTv(lex)
			}
			return typedTv(t, lex)
		}
		if isLL(leaf) {
			arr := &sdcpb.ScalarArray{}
			for _, e := range strings.Split(val[3:], ",") {
				arr.Element = append(arr.Element, mk(e))
			}
			return &sdcpb.Update{Path: mustPb(path), Value: &sdcpb.TypedValue{Value: &sdcpb.TypedValue_LeaflistVal{LeaflistVal: arr}}}
		}
		return &sdcpb.Update{Path: mustPb(path), Value: mk(val)}
	}
	ietf := form == "json_ietf"
	var jv any
	if isLL(leaf) {
		arr := []any{}
		for _, e := range strings.Split(val[3:], ",") {
			arr = append(arr, jsonVal(t, e, ietf))
		}
		jv = arr
	} else {
		jv = jsonVal(t, val, ietf)
	}
	doc, _ := json.Marshal(map[string]any{leaf: jv})
	if ietf {
		return &sdcpb.Update{Path: mustPb("/types"), Value: &sdcpb.TypedValue{Value: &sdcpb.TypedValue_JsonIetfVal{JsonIetfVal: doc}}}
	}
	return &sdcpb.Update{Path: mustPb("/types"), Value: &sdcpb.TypedValue{Value: &sdcpb.TypedValue_JsonVal{JsonVal: doc}}}
}

func (c *c12) interior(rng *core.Rng) c12Case {
	leaves := []string{"i8", "i16", "i32", "i64", "u8", "u16", "u32", "u64", "d1", "d2", "d18", "un1", "un2", "pct", "str"}
	l := leaves[rng.Intn(len(leaves))]
	t := model.LeafTypes[l]
	forms := []string{"typed", "string", "json", "json_ietf", "xml", "gnmi-typed", "gnmi-string", "gnmi-json", "gnmi-json_ietf"}
	rnd := func(lo, hi string) string {
		a, _ := new(big.Int).SetString(lo, 10)
		b, _ := new(big.Int).SetString(hi, 10)
		span := new(big.Int).Sub(b, a)
		r := new(big.Int).SetUint64(rng.Uint64())
		r.Lsh(r, 64).Add(r, new(big.Int).SetUint64(rng.Uint64()))
		r.Mod(r, span.Add(span, big.NewInt(1)))
		return r.Add(r, a).String()
	}
	var v string
	switch t.Kind {
	case "decimal64":
		d := rnd("-9223372036854775808", "9223372036854775807")
		n, _ := new(big.Int).SetString(d, 10)
		v = model.DecimalString(n.Int64(), uint32(t.FD))
	case "union":
		if l == "un1" {
			v = []string{rnd("0", "255"), rnd("256", "9999"), "auto", "x" + rnd("0", "99")}[rng.Intn(4)]
		} else {
			v = []string{rnd("-2147483648", "2147483647"), model.DecimalString(int64(rng.Intn(100000)), 2)}[rng.Intn(2)]
		}
	case "string":
		v = "s" + rnd("0", "99999")
	default:
		if l == "pct" {
			v = rnd("0", "100")
		} else {
			r := map[string][2]string{"int8": {"-128", "127"}, "int16": {"-32768", "32767"}, "int32": {"-2147483648", "2147483647"}, "int64": {"-9223372036854775808", "9223372036854775807"},
				"uint8": {"0", "255"}, "uint16": {"0", "65535"}, "uint32": {"0", "4294967295"}, "uint64": {"0", "18446744073709551615"}}[t.Kind]
			v = rnd(r[0], r[1])
		}
	}
	return c12Case{l, v, forms[rng.Intn(len(forms))]}
}

func (c *c12) RunCase(w *core.Worker, idx int, seed uint64, res *core.CaseResult) {
	rng := core.NewRng(seed)
	var cs c12Case
	if idx < len(c.cases) {
		cs = c.cases[idx]
	} else {
		cs = c.interior(rng)
	}
	t := model.LeafTypes[cs.leaf]
	want, err := c.canon(cs.leaf, cs.val)
	desc := fmt.Sprintf("/types/%s (%s) = %q supplied as %s", cs.leaf, t.Kind, cs.val, cs.form)
	res.Tracef("%s", desc)
	res.Hash = core.HashOf(cs.leaf, cs.val, cs.form)
	res.NonTrivial = true
	if idx%97 == 0 {
		res.Sample = desc
	}
	if err != nil {
		res.Inconclusive("C12/generator", "%s: the reference codec refuses the value: %v", desc, err)
		return
	}
	tkey := cs.leaf
	if cs.form == "xml" {
		c.xmlCase(idx, cs, t, want, desc, res)
		return
	}
	if strings.HasPrefix(cs.form, "gnmi-") {
		c.gnmiCase(cs, t, want, desc, res)
		return
	}
	c.h.pool = nil
	run := c.h.start(rng, res, false, true)
	defer run.close()
	run.ds.Dev.Forward = c.wires
	ctx := context.Background()
	req := &sdcpb.TransactionIntent{Intent: "oa", Priority: 10, Update: []*sdcpb.Update{c.mkUpdate(cs.leaf, cs.val, cs.form)}}
	if cs.leaf == "lr" {
		req.Update = append(req.Update, &sdcpb.Update{Path: mustPb("/types/u16"), Value: strTv(cs.val)})
	}
	set := func(id string, r *sdcpb.TransactionIntent) (rsp *sdcpb.TransactionSetResponse, err error, panicked bool) {
		panicked = apiCall(res, "TransactionSet", func() {
			ti, e := run.ds.SdcpbTransactionIntentToInternalTI(ctx, r)
			if e != nil {
				err = e
				return
			}
			rsp, err = run.ds.TransactionSet(ctx, id, tisOf(ti), nil, time.Minute, false)
		})
		return
	}
	rsp, err, panicked := set("t1", req)
	if panicked {
		return
	}
	rejected := ""
	if err != nil {
		rejected = err.Error()
	} else {
		for _, ir := range rsp.GetIntents() {
			if len(ir.GetErrors()) > 0 {
				rejected = strings.Join(ir.GetErrors(), "; ")
			}
		}
	}
	if rejected != "" {
		res.Violate(fmt.Sprintf("C12/valid-value-refused/%s/%s", tkey, cs.form), "%s: refused: %s", desc, rejected)
		return
	}
	run.ds.TransactionConfirm(ctx, "t1")
	leafPath := model.Parse("/types/" + cs.leaf).String()
	judge := func(where, lex string) {
		res.Count("representations_compared", 1)
		got, err := c.canon(cs.leaf, lex)
		if err != nil {
			res.Violate(fmt.Sprintf("C12/%s-is-no-valid-%s", where, t.Kind), "%s: %s carries %q: %v", desc, where, lex, err)
			return
		}
		if got != want {
			res.Violate(fmt.Sprintf("C12/%s-denotes-another-value/%s", where, tkey), "%s: %s carries %q which denotes %s, supplied %s", desc, where, lex, got, want)
		}
	}
	rec := run.ds.Dev.Last()
	if rec == nil {
		res.Violate("C12/nothing-sent", "%s: the device received nothing", desc)
		return
	}
	found := false
	for _, u := range rec.Updates {
		if model.FromPb(u.GetPath()).String() == leafPath {
			found = true
			judge("proto-typed-value", model.TvString(u.GetValue()))
			var g *gnmi.TypedValue
			if !apiCall(res, "ToGNMITypedValue", func() { g = utils.ToGNMITypedValue(u.GetValue()) }) {
				gl := gnmiLex(g)
				if t.Kind == "empty" && gl == "true" {
					gl = "EMPTY" // gNMI carries a set leaf of type empty as boolean true
				}
				judge("gnmi-typed-value", gl)
			}
		}
	}
	if !found {
		res.Violate("C12/leaf-not-sent/"+tkey, "%s: no update for %s at the device: %s", desc, leafPath, fixture.PayloadKey(rec.Updates, rec.Deletes))
	}
	// what a gNMI device at the far end of the production gNMI target holds, in each gNMI encoding
	for _, wr := range rec.Wire {
		if wr.Err != nil {
			res.Violate(fmt.Sprintf("C12/%s-set-fails/%s", wr.Name, tkey), "%s: %v (on the wire: %s)", desc, wr.Err, wr.Desc)
			continue
		}
		lex, ok := wr.After[leafPath]
		if !ok {
			res.Violate(fmt.Sprintf("C12/%s-device-lacks-the-leaf/%s", wr.Name, tkey), "%s: on the wire: %s", desc, wr.Desc)
			continue
		}
		if t.Kind == "empty" && lex == "true" {
			lex = "EMPTY" // gNMI carries a set leaf of type empty as boolean true
		}
		judge(wr.Name+"-at-device", lex)
	}
	if rec.Views != nil {
		for _, e := range rec.Views.Errors {
			res.Violate("C12/view-not-renderable/"+tkey, "%s: %s", desc, e)
		}
		for name, doc := range map[string]string{"json": rec.Views.JSON[true], "json-ietf": rec.Views.JSONIETF[true]} {
			var v map[string]any
			d := json.NewDecoder(strings.NewReader(doc))
			d.UseNumber()
			if err := d.Decode(&v); err != nil {
				continue
			}
			var leafV any
			ok := false
			for k, tv := range v {
				if k == "types" || strings.HasSuffix(k, ":types") {
					if m, isMap := tv.(map[string]any); isMap {
						for lk, lv := range m {
							if lk == cs.leaf || strings.HasSuffix(lk, ":"+cs.leaf) {
								leafV, ok = lv, true
							}
						}
					}
				}
			}
			if !ok {
				res.Violate(fmt.Sprintf("C12/%s-at-device-lacks-the-leaf/%s", name, tkey), "%s: %s", desc, doc)
				continue
			}
			judge(name+"-at-device", jsonLex(leafV))
			if name == "json-ietf" {
				c.identityPrefix(res, desc, name+"-at-device", t, jsonLex(leafV))
			}
		}
		x := rec.Views.XML[fixture.XMLOpt{OnlyNew: true}]
		ch, err := model.DecodeXML(x, model.XMLOpts{})
		if err == nil {
			if v, ok := ch.Writes[leafPath]; ok {
				judge("xml-text-at-device", v)
			} else {
				res.Violate("C12/xml-at-device-lacks-the-leaf/"+tkey, "%s: %s", desc, x)
			}
		}
	}
	// stored values
	dump, _ := fixture.DumpIntended(ctx, c.h.env.Cache, run.ds.Name)
	for _, e := range dump {
		if cacheToCanon(e.Path) == leafPath {
			judge("intended-store", e.Value)
		}
	}
	// GetData
	srv := server.NewVerif(ctx, &config.Config{}, c.h.env.Schema, c.h.env.Cache, map[string]*datastore.Datastore{run.ds.Name: run.ds.Datastore})
	for _, enc := range []sdcpb.Encoding{sdcpb.Encoding_STRING, sdcpb.Encoding_PROTO, sdcpb.Encoding_JSON, sdcpb.Encoding_JSON_IETF} {
		got := c.gd.get(srv, &sdcpb.GetDataRequest{Name: run.ds.Name, Path: []*sdcpb.Path{mustPb("/types/" + cs.leaf)}, DataType: sdcpb.DataType_CONFIG, Encoding: enc, Datastore: &sdcpb.DataStore{Type: sdcpb.Type_MAIN}})
		if got.err != nil {
			if strings.HasPrefix(got.err.Error(), "PANIC") {
				res.Inconclusive("api-panic", "%s: GetData %s: %v", desc, enc, got.err)
			} else {
				res.Violate(fmt.Sprintf("C12/getdata-%s-fails/%s", enc, tkey), "%s: %v", desc, got.err)
			}
			continue
		}
		v, ok := got.leaves[leafPath]
		if !ok {
			res.Violate(fmt.Sprintf("C12/getdata-%s-lacks-the-leaf/%s", enc, tkey), "%s: returned %v", desc, got.leaves)
			continue
		}
		judge("getdata-"+enc.String(), v)
		if enc == sdcpb.Encoding_JSON_IETF {
			c.identityPrefix(res, desc, "getdata-JSON_IETF", t, v)
		}
	}
	if len(res.Findings) > 0 {
		return
	}
	// equality: the same datum in the other representation is a no-op; an adjacent datum is an update
	other := "string"
	if cs.form == "string" {
		other = "typed"
	}
	same := cs.val
	if t.Kind == "decimal64" && !isLL(cs.leaf) && other == "string" {
		// the same datum written with another number of fraction digits
		switch {
		case strings.Contains(same, ".") && strings.HasSuffix(same, "0") && !strings.HasSuffix(same, ".0"):
			same = strings.TrimSuffix(same, "0")
		case strings.Contains(same, ".") && len(same[strings.Index(same, ".")+1:]) < t.FD:
			same += "0"
		case !strings.Contains(same, "."):
			same += ".0"
		}
	}
	req2 := &sdcpb.TransactionIntent{Intent: "oa", Priority: 10, Update: []*sdcpb.Update{c.mkUpdate(cs.leaf, same, other)}}
	if cs.leaf == "lr" {
		req2.Update = append(req2.Update, &sdcpb.Update{Path: mustPb("/types/u16"), Value: strTv(cs.val)})
	}
	before := run.ds.Dev.NumSets()
	rsp2, err, panicked := set("t2", req2)
	if panicked {
		return
	}
	if err == nil {
		run.ds.TransactionConfirm(ctx, "t2")
		for i, r := range run.ds.Dev.AllSets() {
			if i >= before {
				if k := fixture.PayloadKey(r.Updates, r.Deletes); k != "" {
					res.Violate("C12/equal-data-compare-different/"+tkey, "%s: re-submitted as %s %q, the server sends %s", desc, other, same, k)
				}
			}
		}
		_ = rsp2
		res.Count("equal_pairs_checked", 1)
	}
	// what the running store holds for the supplied value (used below to let the device "drift" back to it)
	cachePath := strings.Split(model.CachePath(model.Parse(leafPath)), ",")
	var storedVal []byte
	for _, u := range c.h.env.Cache.Read(ctx, run.ds.Name, &cache.Opts{Store: cachepb.Store_CONFIG}, [][]string{cachePath}, 0) {
		if strings.Join(u.GetPath(), ",") == strings.Join(cachePath, ",") {
			storedVal = u.Bytes()
		}
	}
	// different data must compare different: an adjacent datum, and (decimal64) the datum with the same digits but the
	// decimal point one place further right or left, must reach the device as an update carrying exactly that datum
	cur := want
	for n, other := range []string{c.adjacent(cs.leaf, cs.val), c.shifted(cs.leaf, cs.val)} {
		if other == "" || len(res.Findings) > 0 {
			continue
		}
		wantOther, err := c.canon(cs.leaf, other)
		if err != nil || wantOther == cur {
			continue
		}
		req3 := &sdcpb.TransactionIntent{Intent: "oa", Priority: 10, Update: []*sdcpb.Update{c.mkUpdate(cs.leaf, other, cs.form)}}
		before = run.ds.Dev.NumSets()
		id := fmt.Sprintf("t3%d", n)
		_, err, panicked = set(id, req3)
		if panicked || err != nil {
			return
		}
		run.ds.TransactionConfirm(ctx, id)
		sent := ""
		for i, r := range run.ds.Dev.AllSets() {
			if i >= before {
				for _, u := range r.Updates {
					if model.FromPb(u.GetPath()).String() == leafPath {
						sent = model.TvString(u.GetValue())
					}
				}
			}
		}
		res.Count("different_pairs_checked", 1)
		kind := []string{"adjacent", "point-shifted"}[n]
		if sent == "" {
			res.Violate("C12/different-data-compare-equal/"+tkey, "%s: changed to the %s value %q, the server sends no update for the leaf", desc, kind, other)
		} else if got, err := c.canon(cs.leaf, sent); err != nil || got != wantOther {
			res.Violate("C12/"+kind+"-value-not-delivered/"+tkey, "%s: changed to %q, the device received %q", desc, other, sent)
		}
		cur = wantOther
		// the device drifts back to the first value (the running store says so): re-applying the unchanged intent must
		// notice that running differs from the intended value and send the intended value again
		if storedVal != nil && len(res.Findings) == 0 {
			if err := c.h.env.Cache.Modify(ctx, run.ds.Name, &cache.Opts{Store: cachepb.Store_CONFIG}, nil, []*cache.Update{cache.NewUpdate(cachePath, storedVal, 0, "", 0)}); err != nil {
				res.Inconclusive("C12/drift-setup", "%v", err)
				return
			}
			before = run.ds.Dev.NumSets()
			id := fmt.Sprintf("t4%d", n)
			_, err, panicked = set(id, req3)
			if panicked || err != nil {
				return
			}
			run.ds.TransactionConfirm(ctx, id)
			sent := ""
			for i, r := range run.ds.Dev.AllSets() {
				if i >= before {
					for _, u := range r.Updates {
						if model.FromPb(u.GetPath()).String() == leafPath {
							sent = model.TvString(u.GetValue())
						}
					}
				}
			}
			res.Count("drift_pairs_checked", 1)
			if sent == "" {
				res.Violate("C12/different-data-compare-equal/"+tkey, "%s: intent now says the %s value %q, the running store was set back to %q (device drift); re-applying the intent sends nothing: the two values compare equal", desc, kind, other, cs.val)
			} else if got, err := c.canon(cs.leaf, sent); err != nil || got != wantOther {
				res.Violate("C12/"+kind+"-value-not-delivered/"+tkey, "%s: after drift the device received %q instead of %q", desc, sent, other)
			}
		}
	}
}

// shifted returns, for decimal64 values, the value with the same digits and the decimal point moved by one place
// (x10, or /10 if x10 leaves the range), "" if neither is a valid value of the type or the value is 0.
func (c *c12) shifted(leaf, val string) string {
	t := model.LeafTypes[leaf]
	if isLL(leaf) {
		return ""
	}
	fd := 0
	switch t.Kind {
	case "decimal64":
		fd = t.FD
	case "union":
		found := false
		for _, m := range t.Union {
			if _, err := model.Canon(m, val); err == nil {
				if m.Kind != "decimal64" {
					return ""
				}
				fd, found = m.FD, true
				break
			}
		}
		if !found {
			return ""
		}
	default:
		return ""
	}
	r, ok := new(big.Rat).SetString(val)
	if !ok || r.Sign() == 0 {
		return ""
	}
	for _, f := range []*big.Rat{big.NewRat(10, 1), big.NewRat(1, 10)} {
		cand := model.RatString(new(big.Rat).Mul(r, f))
		if _, err := model.Canon(model.TypeDef{Kind: "decimal64", FD: fd}, cand); err == nil {
			if t.Kind == "union" {
				// must still select the decimal member
				if cc, err := model.Canon(t, cand); err != nil || !strings.HasPrefix(cc, "decimal64:") {
					continue
				}
			}
			return cand
		}
	}
	return ""
}

// adjacent returns a valid value next to val ("" if the type has no notion of adjacency here).
func (c *c12) adjacent(leaf, val string) string {
	t := model.LeafTypes[leaf]
	if isLL(leaf) {
		return ""
	}
	step := func(kind, lex string, fd int) string {
		switch kind {
		case "int8", "int16", "int32", "int64", "uint8", "uint16", "uint32", "uint64":
			n, ok := new(big.Int).SetString(lex, 10)
			if !ok {
				return ""
			}
			up := new(big.Int).Add(n, big.NewInt(1)).String()
			if _, err := model.Canon(model.TypeDef{Kind: kind}, up); err == nil {
				return up
			}
			return new(big.Int).Sub(n, big.NewInt(1)).String()
		case "decimal64":
			r, ok := new(big.Rat).SetString(lex)
			if !ok {
				return ""
			}
			ulp := new(big.Rat).SetFrac(big.NewInt(1), new(big.Int).Exp(big.NewInt(10), big.NewInt(int64(fd)), nil))
			up := model.RatString(new(big.Rat).Add(r, ulp))
			if _, err := model.Canon(model.TypeDef{Kind: kind, FD: fd}, up); err == nil {
				return up
			}
			return model.RatString(new(big.Rat).Sub(r, ulp))
		case "boolean":
			if lex == "true" {
				return "false"
			}
			return "true"
		case "string":
			return lex + "x"
		}
		return ""
	}
	switch t.Kind {
	case "union":
		for _, m := range t.Union {
			if _, err := model.Canon(m, val); err == nil {
				a := step(m.Kind, val, m.FD)
				if a == "" {
					return ""
				}
				return a
			}
		}
		return ""
	case "leafref":
		return ""
	}
	if leaf == "pct" {
		if val == "100" {
			return "99"
		}
	}
	return step(t.Kind, val, t.FD)
}

// xmlCase: the value arrives as XML text in a NETCONF reply of the device (the production NETCONF target with a scripted
// driver); what the adapter hands to the sync loop must denote the value the device sent. Integers are also sent with
// leading zeros (a valid lexical form of the same number).
func (c *c12) xmlCase(idx int, cs c12Case, t model.TypeDef, want, desc string, res *core.CaseResult) {
	ctx := context.Background()
	lex := []string{cs.val}
	if isLL(cs.leaf) {
		lex = strings.Split(strings.TrimPrefix(cs.val, "LL:"), ",")
	}
	isInt := func(k string) bool { return strings.HasPrefix(k, "int") || strings.HasPrefix(k, "uint") }
	variant := "as is"
	if isInt(t.Kind) && idx%2 == 1 {
		variant = "leading zeros"
		for i, v := range lex {
			if strings.HasPrefix(v, "-") {
				lex[i] = "-00" + v[1:]
			} else {
				lex[i] = "00" + v
			}
		}
	}
	doc := `<data><types xmlns="urn:verif:a">`
	for _, v := range lex {
		if t.Kind == "empty" {
			doc += "<" + cs.leaf + "/>"
		} else {
			doc += "<" + cs.leaf + ">" + xmlEscape(v) + "</" + cs.leaf + ">"
		}
	}
	if cs.leaf == "lr" {
		doc += "<u16>" + cs.val + "</u16>"
	}
	// the device holds more than the leaf under test: two sibling leaf-lists in the same container, one before it (document
	// order is the device's business) and one after
	sibs := map[string][]string{"ll-str": {"sib1", "sib2"}, "ll-i8": {"-7", "7"}}
	delete(sibs, cs.leaf)
	sibDoc := func(name string) string {
		out := ""
		for _, v := range sibs[name] {
			out += "<" + name + ">" + v + "</" + name + ">"
		}
		return out
	}
	if idx%3 != 0 {
		doc = strings.Replace(doc, `<types xmlns="urn:verif:a">`, `<types xmlns="urn:verif:a">`+sibDoc("ll-str"), 1)
		doc += sibDoc("ll-i8")
	} else {
		sibs = nil
	}
	doc += `</types></data>`
	drv := fixture.NewFakeDrv()
	drv.GetConfigDoc = doc
	sbi := &config.SBI{Type: "netconf", Address: "127.0.0.1", Port: 1, ConnectRetry: time.Hour, Timeout: time.Second, Credentials: &config.Creds{Username: "u", Password: "p"},
		NetconfOptions: &config.SBINetconfOptions{CommitDatastore: "candidate"}}
	scb := schemaClient.NewSchemaClientBound(fixture.SchemaConfig().GetSchema(), c.h.env.Schema)
	nct := target.NewNCTargetWithDriver("c12", sbi, scb, drv)
	var rsp *sdcpb.GetDataResponse
	var err error
	if apiCall(res, "ncTarget.Get", func() {
		rsp, err = nct.Get(ctx, &sdcpb.GetDataRequest{Name: "c12", Path: []*sdcpb.Path{mustPb("/types")}, Datastore: &sdcpb.DataStore{Type: sdcpb.Type_MAIN}})
	}) {
		return
	}
	what := fmt.Sprintf("%s (%s): reply %s", desc, variant, doc)
	if err != nil {
		res.Violate(fmt.Sprintf("C12/valid-value-refused/%s/xml", cs.leaf), "%s: refused: %v", what, err)
		return
	}
	leafPath := model.Parse("/types/" + cs.leaf).String()
	got := ""
	found := false
	for _, n := range rsp.GetNotification() {
		for _, u := range n.GetUpdate() {
			if model.FromPb(u.GetPath()).String() == leafPath {
				got, found = model.TvString(u.GetValue()), true
			}
		}
	}
	res.Count("xml_replies", 1)
	if !found {
		res.Violate(fmt.Sprintf("C12/xml-input-lost/%s", cs.leaf), "%s: the adapter produced no update for the leaf", what)
		return
	}
	if g, err := c.canon(cs.leaf, got); err != nil || g != want {
		res.Violate(fmt.Sprintf("C12/xml-input-denotes-another-value/%s", cs.leaf), "%s: the adapter produced %q (want the datum %s)", what, got, want)
	}
	for name, vals := range sibs {
		sp := model.Parse("/types/" + name).String()
		sgot, sfound := "", false
		for _, n := range rsp.GetNotification() {
			for _, u := range n.GetUpdate() {
				if model.FromPb(u.GetPath()).String() == sp {
					sgot, sfound = model.TvString(u.GetValue()), true
				}
			}
		}
		swant := "LL:" + strings.Join(vals, ",")
		res.Count("xml_sibling_leaflists_compared", 1)
		if !sfound {
			res.Violate("C12/xml-input-lost/sibling-leaf-list", "%s: the adapter produced no update for the sibling leaf-list %s", what, name)
		} else if g, err := c.canon(name, sgot); err != nil || g != swant {
			res.Violate("C12/xml-input-denotes-another-value/sibling-leaf-list", "%s: the adapter produced %q for the sibling leaf-list %s (the device holds %s)", what, sgot, name, swant)
		}
	}
}

func xmlEscape(s string) string {
	return strings.NewReplacer("&", "&amp;", "<", "&lt;", ">", "&gt;").Replace(s)
}

// identityPrefix: in a JSON_IETF document an identityref (a leaf or every element of a leaf-list) is written as
// <module-name>:<identity> (RFC 7951, 6.8); the module is the one that defines the identity.
func (c *c12) identityPrefix(res *core.CaseResult, desc, where string, t model.TypeDef, lex string) {
	if t.Kind != "identityref" {
		return
	}
	for _, el := range strings.Split(strings.TrimPrefix(lex, "LL:"), ",") {
		res.Count("identityref_prefixes_checked", 1)
		i := strings.IndexByte(el, ':')
		if i < 0 {
			res.Violate("C12/"+where+"-identityref-without-module", "%s: %s carries the identity %q without its module (want %s:%s)", desc, where, el, model.IdentityModule[el], el)
			return
		}
		if want := model.IdentityModule[el[i+1:]]; el[:i] != want {
			res.Violate("C12/"+where+"-identityref-with-wrong-module", "%s: %s carries %q, the identity is defined in module %s", desc, where, el, want)
			return
		}
	}
}
