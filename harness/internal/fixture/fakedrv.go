package fixture

import (
	"fmt"
	"sync"

	"github.com/beevik/etree"
	"github.com/sdcio/data-server/pkg/datastore/target/netconf/types"
)

// DrvCall is one call the NETCONF target made to its driver.
type DrvCall struct {
	Method string // EditConfig | Commit | Discard | Close | GetConfig | ...
	Target string // candidate | running
	Doc    string
	Failed string // "" or the kind of injected failure
}

// FakeDrv is a netconf.Driver that records the call sequence, models a device candidate/running pair
// and fails the k-th call in a chosen way.
type FakeDrv struct {
	mu    sync.Mutex
	Calls []DrvCall
	Alive bool
	// candidate model
	Pending   []string // documents edited into the candidate and neither committed nor discarded
	Committed [][]string
	Running   []string // documents applied to running directly
	// fault plan: fail call number FailAt (1-based, counted over EditConfig/Commit/Discard since Arm) with FailKind
	FailAt   int
	FailKind string // error | eof | warning | (for Discard: error)
	FailMeth string // only fail if the method matches ("" = any)
	n        int
	plan     map[int]string
	// GetConfigDoc is returned by GetConfig
	GetConfigDoc string
}

func NewFakeDrv() *FakeDrv { return &FakeDrv{Alive: true} }

// Arm resets the call counter and sets the fault plan.
func (f *FakeDrv) Arm(at int, meth, kind string) {
	f.mu.Lock()
	defer f.mu.Unlock()
	f.n, f.FailAt, f.FailMeth, f.FailKind = 0, at, meth, kind
	f.plan = nil
}

func (f *FakeDrv) Mark() int {
	f.mu.Lock()
	defer f.mu.Unlock()
	return len(f.Calls)
}

func (f *FakeDrv) Since(mark int) []DrvCall {
	f.mu.Lock()
	defer f.mu.Unlock()
	return append([]DrvCall{}, f.Calls[mark:]...)
}

func (f *FakeDrv) PendingDocs() []string {
	f.mu.Lock()
	defer f.mu.Unlock()
	return append([]string{}, f.Pending...)
}

// ArmPlan sets a multi-fault plan: call number (1-based since now) -> kind.
func (f *FakeDrv) ArmPlan(plan map[int]string) {
	f.mu.Lock()
	defer f.mu.Unlock()
	f.n, f.FailAt, f.FailMeth, f.FailKind = 0, 0, "", ""
	f.plan = plan
}

func (f *FakeDrv) fault(meth string) string {
	f.n++
	if f.plan != nil {
		return f.plan[f.n]
	}
	if f.FailKind == "double" {
		if meth == "EditConfig" || meth == "Discard" {
			return "error"
		}
		return ""
	}
	if f.FailAt > 0 && f.n == f.FailAt && (f.FailMeth == "" || f.FailMeth == meth) {
		return f.FailKind
	}
	return ""
}

func okDoc() *types.NetconfResponse {
	d := etree.NewDocument()
	d.ReadFromString("<rpc-reply><ok/></rpc-reply>")
	return types.NewNetconfResponse(d)
}

func warnDoc() *types.NetconfResponse {
	d := etree.NewDocument()
	d.ReadFromString("<rpc-reply><rpc-error><error-type>application</error-type><error-severity>warning</error-severity><error-message>verif warning</error-message></rpc-error><ok/></rpc-reply>")
	return types.NewNetconfResponse(d)
}

func (f *FakeDrv) EditConfig(target string, config string) (*types.NetconfResponse, error) {
	f.mu.Lock()
	defer f.mu.Unlock()
	kind := f.fault("EditConfig")
	c := DrvCall{Method: "EditConfig", Target: target, Doc: config, Failed: kind}
	if !f.Alive {
		c.Failed = "sent-on-dead-connection"
		f.Calls = append(f.Calls, c)
		return nil, fmt.Errorf("EOF")
	}
	f.Calls = append(f.Calls, c)
	switch kind {
	case "error":
		// a failed edit may have been applied partly: the candidate is dirty
		if target == "candidate" {
			f.Pending = append(f.Pending, config)
		}
		return nil, fmt.Errorf("operation failed: rpc-error severity error (verif)")
	case "eof":
		f.Alive = false
		return nil, fmt.Errorf("transport closed: EOF")
	}
	if target == "candidate" {
		f.Pending = append(f.Pending, config)
	} else {
		f.Running = append(f.Running, config)
	}
	if kind == "warning" {
		return warnDoc(), nil
	}
	return okDoc(), nil
}

func (f *FakeDrv) Commit() error {
	f.mu.Lock()
	defer f.mu.Unlock()
	kind := f.fault("Commit")
	c := DrvCall{Method: "Commit", Failed: kind}
	if !f.Alive {
		c.Failed = "sent-on-dead-connection"
		f.Calls = append(f.Calls, c)
		return fmt.Errorf("EOF")
	}
	f.Calls = append(f.Calls, c)
	switch kind {
	case "error":
		return fmt.Errorf("commit failed: rpc-error severity error (verif)")
	case "eof":
		f.Alive = false
		return fmt.Errorf("transport closed: EOF")
	}
	f.Committed = append(f.Committed, f.Pending)
	f.Pending = nil
	return nil
}

func (f *FakeDrv) Discard() error {
	f.mu.Lock()
	defer f.mu.Unlock()
	kind := f.fault("Discard")
	c := DrvCall{Method: "Discard", Failed: kind}
	if !f.Alive {
		c.Failed = "sent-on-dead-connection"
		f.Calls = append(f.Calls, c)
		return fmt.Errorf("EOF")
	}
	f.Calls = append(f.Calls, c)
	if kind == "error" || kind == "eof" {
		if kind == "eof" {
			f.Alive = false
		}
		return fmt.Errorf("discard failed (verif)")
	}
	f.Pending = nil
	return nil
}

func (f *FakeDrv) Get(filter string) (*types.NetconfResponse, error) {
	return f.GetConfig("running", filter)
}

func (f *FakeDrv) GetConfig(source string, filter string) (*types.NetconfResponse, error) {
	f.mu.Lock()
	defer f.mu.Unlock()
	f.Calls = append(f.Calls, DrvCall{Method: "GetConfig", Target: source, Doc: filter})
	d := etree.NewDocument()
	doc := f.GetConfigDoc
	if doc == "" {
		doc = "<data/>"
	}
	if err := d.ReadFromString(doc); err != nil {
		return nil, err
	}
	return types.NewNetconfResponse(d), nil
}

func (f *FakeDrv) Lock(target string) (*types.NetconfResponse, error)   { return okDoc(), nil }
func (f *FakeDrv) Unlock(target string) (*types.NetconfResponse, error) { return okDoc(), nil }
func (f *FakeDrv) Validate(source string) (*types.NetconfResponse, error) {
	return okDoc(), nil
}
func (f *FakeDrv) Close() error {
	f.mu.Lock()
	defer f.mu.Unlock()
	f.Calls = append(f.Calls, DrvCall{Method: "Close"})
	f.Alive = false
	return nil
}
func (f *FakeDrv) IsAlive() bool {
	f.mu.Lock()
	defer f.mu.Unlock()
	return f.Alive
}

// ArmDouble: the next EditConfig fails and the Discard following it fails too.
func (f *FakeDrv) ArmDouble() {
	f.mu.Lock()
	defer f.mu.Unlock()
	f.n, f.FailAt, f.FailMeth, f.FailKind = 0, -1, "", "double"
	f.plan = nil
}
