package fixture

import (
	"context"
	"encoding/base64"
	"fmt"
	"net"
	"sort"
	"strconv"
	"strings"
	"sync"

	gnmi "github.com/openconfig/gnmi/proto/gnmi"
	"google.golang.org/grpc"
	"google.golang.org/grpc/codes"
	"google.golang.org/grpc/status"

	"verifharness/internal/model"
)

// GNMIDevice is a gNMI device on loopback gRPC that the production gNMI target reaches through the real gnmic client.
// It keeps its configuration as canonical path -> lexical value (the notation RecDev uses), records every SetRequest
// as it arrived on the wire, serves Get from a list of notifications and streams whatever the harness pushes.
type GNMIDevice struct {
	gnmi.UnimplementedGNMIServer
	mu sync.Mutex
	// Config: canonical path -> lexical value, the result of applying every accepted SetRequest in order
	Config map[string]string
	// Sets: every SetRequest received
	Sets []*GNMISet
	// FailNext: the next n SetRequests are answered with an error (and not applied)
	FailNext int
	// GetNotifs is what a Get answers with (nil: rendered from Config as string values)
	GetNotifs []*gnmi.Notification
	// Gets counts the Get rpcs received
	Gets int
	// Onces counts the ONCE subscriptions served
	Onces int

	subs   map[int]chan *gnmi.SubscribeResponse
	subSeq int
	subCnd *sync.Cond

	ln  net.Listener
	srv *grpc.Server
}

// GNMISet is one SetRequest as received, with the configuration before and after.
type GNMISet struct {
	Req      *gnmi.SetRequest
	Before   map[string]string
	After    map[string]string
	Rejected bool
	// DecodeErr: the request could not be understood (a path or value the device cannot interpret)
	DecodeErr string
}

func NewGNMIDevice() (*GNMIDevice, error) {
	ln, err := net.Listen("tcp", "127.0.0.1:0")
	if err != nil {
		return nil, err
	}
	d := &GNMIDevice{Config: map[string]string{}, subs: map[int]chan *gnmi.SubscribeResponse{}, ln: ln, srv: grpc.NewServer()}
	d.subCnd = sync.NewCond(&d.mu)
	gnmi.RegisterGNMIServer(d.srv, d)
	go d.srv.Serve(ln)
	return d, nil
}

func (d *GNMIDevice) Port() uint32 { return uint32(d.ln.Addr().(*net.TCPAddr).Port) }
func (d *GNMIDevice) Close()       { d.srv.Stop() }

func (d *GNMIDevice) Capabilities(context.Context, *gnmi.CapabilityRequest) (*gnmi.CapabilityResponse, error) {
	return &gnmi.CapabilityResponse{
		SupportedEncodings: []gnmi.Encoding{gnmi.Encoding_JSON, gnmi.Encoding_JSON_IETF, gnmi.Encoding_PROTO, gnmi.Encoding_ASCII},
		GNMIVersion:        "0.10.0",
	}, nil
}

// GPath converts a gNMI path (with an optional prefix) to the model notation.
func GPath(prefix, p *gnmi.Path) model.Path {
	var out model.Path
	for _, gp := range []*gnmi.Path{prefix, p} {
		for _, e := range gp.GetElem() {
			pe := model.Elem{Name: e.GetName()}
			if len(e.GetKey()) > 0 {
				pe.Keys = map[string]string{}
				for k, v := range e.GetKey() {
					pe.Keys[k] = v
				}
			}
			out = append(out, pe)
		}
	}
	return out
}

// ToGPath converts a model path to a gNMI path.
func ToGPath(p model.Path) *gnmi.Path {
	out := &gnmi.Path{}
	for _, e := range p {
		ge := &gnmi.PathElem{Name: e.Name}
		if len(e.Keys) > 0 {
			ge.Key = map[string]string{}
			for k, v := range e.Keys {
				ge.Key[k] = v
			}
		}
		out.Elem = append(out.Elem, ge)
	}
	return out
}

// GLex is the lexical form of a gNMI scalar or leaf-list value (the notation model.TvString uses).
func GLex(tv *gnmi.TypedValue) (string, error) {
	switch v := tv.GetValue().(type) {
	case *gnmi.TypedValue_StringVal:
		return v.StringVal, nil
	case *gnmi.TypedValue_AsciiVal:
		return v.AsciiVal, nil
	case *gnmi.TypedValue_IntVal:
		return fmt.Sprint(v.IntVal), nil
	case *gnmi.TypedValue_UintVal:
		return fmt.Sprint(v.UintVal), nil
	case *gnmi.TypedValue_BoolVal:
		return fmt.Sprint(v.BoolVal), nil
	case *gnmi.TypedValue_DoubleVal:
		return strconv.FormatFloat(v.DoubleVal, 'g', -1, 64), nil
	case *gnmi.TypedValue_FloatVal:
		return strconv.FormatFloat(float64(v.FloatVal), 'g', -1, 32), nil
	case *gnmi.TypedValue_DecimalVal:
		return model.DecimalString(v.DecimalVal.GetDigits(), v.DecimalVal.GetPrecision()), nil
	case *gnmi.TypedValue_BytesVal:
		return base64.StdEncoding.EncodeToString(v.BytesVal), nil
	case *gnmi.TypedValue_LeaflistVal:
		el := []string{}
		for _, e := range v.LeaflistVal.GetElement() {
			s, err := GLex(e)
			if err != nil {
				return "", err
			}
			el = append(el, s)
		}
		return "LL:" + strings.Join(el, ","), nil
	}
	return "", fmt.Errorf("value of kind %T", tv.GetValue())
}

func (d *GNMIDevice) Set(ctx context.Context, req *gnmi.SetRequest) (*gnmi.SetResponse, error) {
	d.mu.Lock()
	defer d.mu.Unlock()
	rec := &GNMISet{Req: req, Before: copyMap(d.Config)}
	d.Sets = append(d.Sets, rec)
	if d.FailNext > 0 {
		d.FailNext--
		rec.Rejected = true
		rec.After = rec.Before
		return nil, status.Error(codes.Aborted, "scripted failure")
	}
	next, err := ApplyGNMISet(rec.Before, req)
	if err != nil {
		rec.DecodeErr = err.Error()
		rec.Rejected = true
		rec.After = rec.Before
		return nil, status.Error(codes.InvalidArgument, err.Error())
	}
	d.Config = next
	rec.After = copyMap(next)
	rsp := &gnmi.SetResponse{Timestamp: 1}
	for _, p := range req.GetDelete() {
		rsp.Response = append(rsp.Response, &gnmi.UpdateResult{Path: p, Op: gnmi.UpdateResult_DELETE})
	}
	for _, u := range req.GetUpdate() {
		rsp.Response = append(rsp.Response, &gnmi.UpdateResult{Path: u.GetPath(), Op: gnmi.UpdateResult_UPDATE})
	}
	return rsp, nil
}

// PresenceContainers (set by the checks): paths of the fixture schema's presence containers. A device creates the
// container when a node below it is written, and keeps it when that node is deleted again.
var PresenceContainers = map[string]bool{}

func markContainers(cfg map[string]string, leaf string) {
	p := model.Parse(leaf)
	for i := 1; i < len(p); i++ {
		if anc := p[:i].String(); PresenceContainers[anc] {
			if _, ok := cfg[anc]; !ok {
				cfg[anc] = "EMPTY"
			}
		}
	}
}

// ApplyGNMISet applies a SetRequest the way a device does: deletes, then replaces, then updates.
func ApplyGNMISet(before map[string]string, req *gnmi.SetRequest) (map[string]string, error) {
	cfg := copyMap(before)
	del := func(p model.Path) {
		for k := range cfg {
			if p.Covers(model.Parse(k)) {
				delete(cfg, k)
			}
		}
	}
	write := func(u *gnmi.Update) error {
		base := GPath(req.GetPrefix(), u.GetPath())
		var doc []byte
		switch v := u.GetVal().GetValue().(type) {
		case *gnmi.TypedValue_JsonVal:
			doc = v.JsonVal
		case *gnmi.TypedValue_JsonIetfVal:
			doc = v.JsonIetfVal
		case nil:
			return fmt.Errorf("update of %s without a value", base)
		default:
			if len(base) == 0 {
				return fmt.Errorf("scalar update without a path")
			}
			lex, err := GLex(u.GetVal())
			if err != nil {
				return fmt.Errorf("update of %s: %v", base, err)
			}
			cfg[base.String()] = lex
			markContainers(cfg, base.String())
			for kp, kv := range base.KeyLeaves() {
				cfg[kp] = kv
			}
			return nil
		}
		leaves, _, err := model.DecodeJSON(doc, base)
		if err != nil {
			return fmt.Errorf("update of %s: JSON %s: %v", base, doc, err)
		}
		for k, v := range leaves {
			cfg[k] = v
			markContainers(cfg, k)
		}
		for kp, kv := range base.KeyLeaves() {
			cfg[kp] = kv
		}
		return nil
	}
	for _, p := range req.GetDelete() {
		del(GPath(req.GetPrefix(), p))
	}
	for _, u := range req.GetReplace() {
		del(GPath(req.GetPrefix(), u.GetPath()))
		if err := write(u); err != nil {
			return nil, err
		}
	}
	for _, u := range req.GetUpdate() {
		if err := write(u); err != nil {
			return nil, err
		}
	}
	return cfg, nil
}

func copyMap(m map[string]string) map[string]string {
	out := make(map[string]string, len(m))
	for k, v := range m {
		out[k] = v
	}
	return out
}

func (d *GNMIDevice) Get(ctx context.Context, req *gnmi.GetRequest) (*gnmi.GetResponse, error) {
	d.mu.Lock()
	defer d.mu.Unlock()
	d.Gets++
	d.subCnd.Broadcast()
	if d.GetNotifs != nil {
		return &gnmi.GetResponse{Notification: d.GetNotifs}, nil
	}
	n := &gnmi.Notification{Timestamp: 1}
	keys := make([]string, 0, len(d.Config))
	for k := range d.Config {
		keys = append(keys, k)
	}
	sort.Strings(keys)
	for _, k := range keys {
		p := model.Parse(k)
		covered := len(req.GetPath()) == 0
		for _, rp := range req.GetPath() {
			if GPath(req.GetPrefix(), rp).Covers(p) {
				covered = true
			}
		}
		if covered {
			n.Update = append(n.Update, &gnmi.Update{Path: ToGPath(p), Val: &gnmi.TypedValue{Value: &gnmi.TypedValue_StringVal{StringVal: d.Config[k]}}})
		}
	}
	return &gnmi.GetResponse{Notification: []*gnmi.Notification{n}}, nil
}

// WaitGets blocks until the device has received at least n Get rpcs.
func (d *GNMIDevice) WaitGets(n int) {
	d.mu.Lock()
	defer d.mu.Unlock()
	for d.Gets < n {
		d.subCnd.Wait()
	}
}

// SetGetNotifs sets what the device answers a Get with.
func (d *GNMIDevice) SetGetNotifs(ns []*gnmi.Notification) {
	d.mu.Lock()
	defer d.mu.Unlock()
	d.GetNotifs = ns
}

func (d *GNMIDevice) NumSubscribers() int {
	d.mu.Lock()
	defer d.mu.Unlock()
	return len(d.subs)
}

func (d *GNMIDevice) NumOnces() int {
	d.mu.Lock()
	defer d.mu.Unlock()
	return d.Onces
}

func (d *GNMIDevice) NumGets() int {
	d.mu.Lock()
	defer d.mu.Unlock()
	return d.Gets
}

// Subscribe serves STREAM subscriptions with what the harness pushes; ONCE subscriptions get GetNotifs and a sync response.
func (d *GNMIDevice) Subscribe(stream gnmi.GNMI_SubscribeServer) error {
	req, err := stream.Recv()
	if err != nil {
		return err
	}
	if req.GetSubscribe().GetMode() == gnmi.SubscriptionList_ONCE {
		d.mu.Lock()
		ns := d.GetNotifs
		d.Onces++
		d.mu.Unlock()
		for _, n := range ns {
			if err := stream.Send(&gnmi.SubscribeResponse{Response: &gnmi.SubscribeResponse_Update{Update: n}}); err != nil {
				return err
			}
		}
		return stream.Send(&gnmi.SubscribeResponse{Response: &gnmi.SubscribeResponse_SyncResponse{SyncResponse: true}})
	}
	ch := make(chan *gnmi.SubscribeResponse, 4096)
	d.mu.Lock()
	d.subSeq++
	id := d.subSeq
	d.subs[id] = ch
	d.subCnd.Broadcast()
	d.mu.Unlock()
	defer func() {
		d.mu.Lock()
		delete(d.subs, id)
		d.mu.Unlock()
	}()
	if err := stream.Send(&gnmi.SubscribeResponse{Response: &gnmi.SubscribeResponse_SyncResponse{SyncResponse: true}}); err != nil {
		return err
	}
	for {
		select {
		case <-stream.Context().Done():
			return nil
		case r := <-ch:
			if err := stream.Send(r); err != nil {
				return err
			}
		}
	}
}

// WaitSubscribers blocks until n stream subscriptions are open.
func (d *GNMIDevice) WaitSubscribers(n int) {
	d.mu.Lock()
	defer d.mu.Unlock()
	for len(d.subs) < n {
		d.subCnd.Wait()
	}
}

// Push sends a notification to every open stream subscription.
func (d *GNMIDevice) Push(n *gnmi.Notification) int {
	d.mu.Lock()
	defer d.mu.Unlock()
	for _, ch := range d.subs {
		ch <- &gnmi.SubscribeResponse{Response: &gnmi.SubscribeResponse_Update{Update: n}}
	}
	return len(d.subs)
}

// SetConfig replaces the device configuration (an operator changed the device).
func (d *GNMIDevice) SetConfig(cfg map[string]string) {
	d.mu.Lock()
	defer d.mu.Unlock()
	d.Config = copyMap(cfg)
}

func (d *GNMIDevice) Snapshot() map[string]string {
	d.mu.Lock()
	defer d.mu.Unlock()
	return copyMap(d.Config)
}

func (d *GNMIDevice) NumSets() int {
	d.mu.Lock()
	defer d.mu.Unlock()
	return len(d.Sets)
}

func (d *GNMIDevice) SetsSince(mark int) []*GNMISet {
	d.mu.Lock()
	defer d.mu.Unlock()
	return append([]*GNMISet{}, d.Sets[mark:]...)
}

func (d *GNMIDevice) Fail(n int) {
	d.mu.Lock()
	defer d.mu.Unlock()
	d.FailNext = n
}

// DescribeSet renders a SetRequest for traces.
func DescribeSet(req *gnmi.SetRequest) string {
	var sb strings.Builder
	for _, p := range req.GetDelete() {
		fmt.Fprintf(&sb, "del %s; ", GPath(req.GetPrefix(), p))
	}
	for _, u := range req.GetReplace() {
		fmt.Fprintf(&sb, "replace %s=%s; ", GPath(req.GetPrefix(), u.GetPath()), describeGVal(u.GetVal()))
	}
	for _, u := range req.GetUpdate() {
		fmt.Fprintf(&sb, "upd %s=%s; ", GPath(req.GetPrefix(), u.GetPath()), describeGVal(u.GetVal()))
	}
	return sb.String()
}

func describeGVal(tv *gnmi.TypedValue) string {
	switch v := tv.GetValue().(type) {
	case *gnmi.TypedValue_JsonVal:
		return "JSON" + string(v.JsonVal)
	case *gnmi.TypedValue_JsonIetfVal:
		return "JSON_IETF" + string(v.JsonIetfVal)
	}
	s, err := GLex(tv)
	if err != nil {
		return "?" + err.Error()
	}
	return fmt.Sprintf("%s(%T)", s, tv.GetValue())
}
