package fixture

import (
	"context"
	"fmt"
	"net"
	"regexp"
	"runtime"
	"strings"
	"sync"
	"time"

	"google.golang.org/grpc/metadata"
	"google.golang.org/grpc/peer"
)

// FakeStream is a scriptable grpc server stream. Its context always carries peer information, as every real gRPC stream does.
type FakeStream[T any] struct {
	ctx    context.Context
	cancel context.CancelFunc
	mu     sync.Mutex
	Sent   []T
	// script
	CancelAtSend int           // cancel the client context when the n-th Send (1-based) is called (0 = never)
	FailAtSend   int           // n-th and all later Sends return an error
	StallAtSend  int           // the n-th Send blocks until the context is cancelled
	SendDelay    time.Duration // slow consumer
	FailErr      error
	nSend        int
}

var peerSeq int
var peerMu sync.Mutex

func NewFakeStream[T any](parent context.Context) *FakeStream[T] {
	peerMu.Lock()
	peerSeq++
	port := 10000 + peerSeq%50000
	peerMu.Unlock()
	ctx := peer.NewContext(parent, &peer.Peer{Addr: &net.TCPAddr{IP: net.IPv4(127, 0, 0, 1), Port: port}})
	ctx, cancel := context.WithCancel(ctx)
	return &FakeStream[T]{ctx: ctx, cancel: cancel, FailErr: fmt.Errorf("rpc error: code = Unavailable desc = transport is closing")}
}

func (f *FakeStream[T]) Cancel()                      { f.cancel() }
func (f *FakeStream[T]) Context() context.Context     { return f.ctx }
func (f *FakeStream[T]) SetHeader(metadata.MD) error  { return nil }
func (f *FakeStream[T]) SendHeader(metadata.MD) error { return nil }
func (f *FakeStream[T]) SetTrailer(metadata.MD)       {}
func (f *FakeStream[T]) SendMsg(m any) error          { return nil }
func (f *FakeStream[T]) RecvMsg(m any) error          { return nil }

func (f *FakeStream[T]) NumSent() int {
	f.mu.Lock()
	defer f.mu.Unlock()
	return len(f.Sent)
}

func (f *FakeStream[T]) Send(m T) error {
	f.mu.Lock()
	f.nSend++
	n := f.nSend
	delay := f.SendDelay
	f.mu.Unlock()
	if delay > 0 {
		select {
		case <-time.After(delay):
		case <-f.ctx.Done():
		}
	}
	if f.CancelAtSend > 0 && n == f.CancelAtSend {
		f.cancel()
	}
	if f.StallAtSend > 0 && n >= f.StallAtSend {
		<-f.ctx.Done()
		return f.ctx.Err()
	}
	if f.FailAtSend > 0 && n >= f.FailAtSend {
		return f.FailErr
	}
	if f.ctx.Err() != nil {
		// gRPC fails sends on a cancelled stream
		return fmt.Errorf("rpc error: code = Canceled desc = context canceled")
	}
	f.mu.Lock()
	f.Sent = append(f.Sent, m)
	f.mu.Unlock()
	return nil
}

var goroutineHdr = regexp.MustCompile(`(?m)^goroutine (\d+) \[([^\]]+)\]:`)

// Census counts goroutines that have a frame matching one of the given substrings; it returns the count and their stacks.
func Census(frames ...string) (int, []string) {
	buf := make([]byte, 1<<20)
	for {
		n := runtime.Stack(buf, true)
		if n < len(buf) {
			buf = buf[:n]
			break
		}
		buf = make([]byte, 2*len(buf))
	}
	var stacks []string
	for _, g := range strings.Split(string(buf), "\n\n") {
		if !goroutineHdr.MatchString(g) {
			continue
		}
		for _, fr := range frames {
			if strings.Contains(g, fr) {
				stacks = append(stacks, g)
				break
			}
		}
	}
	return len(stacks), stacks
}
