package fixture

import (
	"context"
	"fmt"
	"sync"
	"time"

	"github.com/sdcio/cache/proto/cachepb"
	"github.com/sdcio/data-server/pkg/cache"
)

// CacheCall describes one call the datastore made to its cache client.
type CacheCall struct {
	N      int    // 1-based index over all intercepted calls
	Method string // Modify | Read | ReadCh | GetKeys
	Store  cachepb.Store
	Owner  string
	Prio   int32
	NDel   int
	NUpd   int
}

// FaultCache decorates a real cache client: counts calls and lets a script act at call k.
type FaultCache struct {
	cache.Client
	mu    sync.Mutex
	Calls []CacheCall
	// Before is called (outside the lock) before the call is forwarded; a non-nil error is
	// returned to the datastore instead of forwarding (for Read/ReadCh: an empty answer).
	Before func(c CacheCall) error
	// After is called after the call was forwarded.
	After func(c CacheCall)
	// ModifyGate, if set, is called inside Modify before forwarding (C13 completion order control).
	ModifyGate func(c CacheCall, dels [][]string, upds []*cache.Update)
}

func NewFaultCache(c cache.Client) *FaultCache { return &FaultCache{Client: c} }

func (f *FaultCache) record(method string, opts *cache.Opts, ndel, nupd int) CacheCall {
	f.mu.Lock()
	defer f.mu.Unlock()
	c := CacheCall{N: len(f.Calls) + 1, Method: method, NDel: ndel, NUpd: nupd}
	if opts != nil {
		c.Store, c.Owner, c.Prio = opts.Store, opts.Owner, opts.Priority
	}
	f.Calls = append(f.Calls, c)
	return c
}

func (f *FaultCache) Reset() {
	f.mu.Lock()
	defer f.mu.Unlock()
	f.Calls = nil
}

func (f *FaultCache) Count(method string) int {
	f.mu.Lock()
	defer f.mu.Unlock()
	n := 0
	for _, c := range f.Calls {
		if c.Method == method {
			n++
		}
	}
	return n
}

func (f *FaultCache) Snapshot() []CacheCall {
	f.mu.Lock()
	defer f.mu.Unlock()
	return append([]CacheCall{}, f.Calls...)
}

// CreatePruneID / ApplyPrune are counted ("CreatePruneID", "ApplyPrune" when called, "ApplyPrune.done" when applied).
func (f *FaultCache) CreatePruneID(ctx context.Context, name string, force bool) (string, error) {
	f.record("CreatePruneID", nil, 0, 0)
	return f.Client.CreatePruneID(ctx, name, force)
}

func (f *FaultCache) ApplyPrune(ctx context.Context, name, id string) error {
	f.record("ApplyPrune", nil, 0, 0)
	err := f.Client.ApplyPrune(ctx, name, id)
	f.record("ApplyPrune.done", nil, 0, 0)
	return err
}

func (f *FaultCache) Modify(ctx context.Context, name string, opts *cache.Opts, dels [][]string, upds []*cache.Update) error {
	c := f.record("Modify", opts, len(dels), len(upds))
	if f.Before != nil {
		if err := f.Before(c); err != nil {
			return err
		}
	}
	if f.ModifyGate != nil {
		f.ModifyGate(c, dels, upds)
	}
	err := f.Client.Modify(ctx, name, opts, dels, upds)
	if f.After != nil {
		f.After(c)
	}
	return err
}

func (f *FaultCache) Read(ctx context.Context, name string, opts *cache.Opts, paths [][]string, period time.Duration) []*cache.Update {
	c := f.record("Read", opts, 0, len(paths))
	if f.Before != nil {
		if err := f.Before(c); err != nil {
			return nil
		}
	}
	r := f.Client.Read(ctx, name, opts, paths, period)
	if f.After != nil {
		f.After(c)
	}
	return r
}

func (f *FaultCache) ReadCh(ctx context.Context, name string, opts *cache.Opts, paths [][]string, period time.Duration) chan *cache.Update {
	c := f.record("ReadCh", opts, 0, len(paths))
	if f.Before != nil {
		if err := f.Before(c); err != nil {
			ch := make(chan *cache.Update)
			close(ch)
			return ch
		}
	}
	r := f.Client.ReadCh(ctx, name, opts, paths, period)
	if f.After != nil {
		f.After(c)
	}
	return r
}

func (f *FaultCache) GetKeys(ctx context.Context, name string, store cachepb.Store) (chan *cache.Update, error) {
	c := f.record("GetKeys", &cache.Opts{Store: store}, 0, 0)
	if f.Before != nil {
		if err := f.Before(c); err != nil {
			return nil, err
		}
	}
	r, err := f.Client.GetKeys(ctx, name, store)
	if f.After != nil {
		f.After(c)
	}
	return r, err
}

var ErrInjected = fmt.Errorf("verif: injected transient fault")
