package fixture

import (
	"context"
	"sync"

	sdcpb "github.com/sdcio/sdc-protos/sdcpb"
	"google.golang.org/grpc"

	dschema "github.com/sdcio/data-server/pkg/schema"
)

// FaultSchema decorates a schema client: counts the calls the datastore makes and lets a script fail call k.
type FaultSchema struct {
	dschema.Client
	mu sync.Mutex
	N  int
	// Before is called before a call is forwarded; a non-nil error is returned to the datastore instead.
	Before func(n int, method string) error
}

func NewFaultSchema(c dschema.Client) *FaultSchema { return &FaultSchema{Client: c} }

func (f *FaultSchema) hit(method string) error {
	f.mu.Lock()
	f.N++
	n := f.N
	b := f.Before
	f.mu.Unlock()
	if b != nil {
		return b(n, method)
	}
	return nil
}

func (f *FaultSchema) Count() int {
	f.mu.Lock()
	defer f.mu.Unlock()
	return f.N
}

func (f *FaultSchema) Reset() {
	f.mu.Lock()
	defer f.mu.Unlock()
	f.N = 0
}

func (f *FaultSchema) GetSchema(ctx context.Context, in *sdcpb.GetSchemaRequest, opts ...grpc.CallOption) (*sdcpb.GetSchemaResponse, error) {
	if err := f.hit("GetSchema"); err != nil {
		return nil, err
	}
	return f.Client.GetSchema(ctx, in, opts...)
}

func (f *FaultSchema) ToPath(ctx context.Context, in *sdcpb.ToPathRequest, opts ...grpc.CallOption) (*sdcpb.ToPathResponse, error) {
	if err := f.hit("ToPath"); err != nil {
		return nil, err
	}
	return f.Client.ToPath(ctx, in, opts...)
}

func (f *FaultSchema) ExpandPath(ctx context.Context, in *sdcpb.ExpandPathRequest, opts ...grpc.CallOption) (*sdcpb.ExpandPathResponse, error) {
	if err := f.hit("ExpandPath"); err != nil {
		return nil, err
	}
	return f.Client.ExpandPath(ctx, in, opts...)
}

func (f *FaultSchema) GetSchemaElements(ctx context.Context, req *sdcpb.GetSchemaRequest, opts ...grpc.CallOption) (chan *sdcpb.SchemaElem, error) {
	if err := f.hit("GetSchemaElements"); err != nil {
		return nil, err
	}
	return f.Client.GetSchemaElements(ctx, req, opts...)
}
