package fixture

import (
	"context"
	"encoding/json"
	"fmt"
	"runtime/debug"
	"sort"
	"sync"

	"github.com/sdcio/data-server/pkg/config"
	"github.com/sdcio/data-server/pkg/datastore/target"
	sdcpb "github.com/sdcio/sdc-protos/sdcpb"

	"verifharness/internal/model"
)

// XMLOpt is one combination of the ToXML switches.
type XMLOpt struct {
	OnlyNew, HonorNS, OpWithNS, UseRemove bool
}

// Views are all renderings of one tree instance handed to Set.
type Views struct {
	JSON     map[bool]string // onlyNewOrUpdated -> marshalled JSON
	JSONIETF map[bool]string
	XML      map[XMLOpt]string
	ProtoAll []*sdcpb.Update // onlyNewOrUpdated=false
	Errors   []string        // errors / panics while rendering
}

// SetRecord is one observed Set call.
type SetRecord struct {
	Updates []*sdcpb.Update
	Deletes []*sdcpb.Path
	Views   *Views
	Before  map[string]string // device configuration before the call (only when CaptureViews)
	Failed  bool
	Wire    []WireResult // what the forwarders observed (only when CaptureViews)
}

// WireResult is what a device at the far end of a production target held after the same tree was handed to that target.
type WireResult struct {
	Name  string
	After map[string]string
	Desc  string
	Err   error
}

// Forwarder hands the tree to a production target whose device starts from the given configuration.
type Forwarder struct {
	Name string
	Fn   func(ctx context.Context, before map[string]string, src target.TargetSource) (after map[string]string, desc string, err error)
}

// RecDev is the recording device: a target.Target that renders the proto view of the
// tree it is handed, records it and applies it to an in-memory device configuration.
type RecDev struct {
	mu           sync.Mutex
	Config       map[string]string // canonical path -> lexical value
	Sets         []*SetRecord
	CaptureViews bool
	// FailNext > 0: the next FailNext Set calls fail (nothing is applied)
	FailNext int
	// SetHook, if set, is called at the beginning of every Set (outside the lock)
	SetHook func(n int)
	// PostHook, if set, is called after a Set was applied; a non-nil error is returned to the datastore although
	// the device holds the change (the reply got lost)
	PostHook func(n int) error
	// SyncFn is run by Sync (C13 scripts)
	SyncFn func(ctx context.Context, cfg *config.Sync, ch chan *target.SyncUpdate)
	// Forward: production targets that are handed every tree as well (only when CaptureViews)
	Forward []Forwarder
	nSet    int
}

func NewRecDev() *RecDev { return &RecDev{Config: map[string]string{}} }

func (r *RecDev) Get(ctx context.Context, req *sdcpb.GetDataRequest) (*sdcpb.GetDataResponse, error) {
	return &sdcpb.GetDataResponse{}, nil
}

func (r *RecDev) NumSets() int {
	r.mu.Lock()
	defer r.mu.Unlock()
	return len(r.Sets)
}

func (r *RecDev) Last() *SetRecord {
	r.mu.Lock()
	defer r.mu.Unlock()
	if len(r.Sets) == 0 {
		return nil
	}
	return r.Sets[len(r.Sets)-1]
}

func (r *RecDev) Snapshot() map[string]string {
	r.mu.Lock()
	defer r.mu.Unlock()
	c := make(map[string]string, len(r.Config))
	for k, v := range r.Config {
		c[k] = v
	}
	return c
}

func (r *RecDev) Set(ctx context.Context, src target.TargetSource) (*sdcpb.SetDataResponse, error) {
	r.mu.Lock()
	r.nSet++
	n := r.nSet
	hook := r.SetHook
	r.mu.Unlock()
	if hook != nil {
		hook(n)
	}
	upds, err := src.ToProtoUpdates(ctx, true)
	if err != nil {
		return nil, fmt.Errorf("recdev: ToProtoUpdates: %w", err)
	}
	dels, err := src.ToProtoDeletes(ctx)
	if err != nil {
		return nil, fmt.Errorf("recdev: ToProtoDeletes: %w", err)
	}
	rec := &SetRecord{Updates: upds, Deletes: dels}
	if r.CaptureViews {
		rec.Views = captureViews(ctx, src)
		rec.Before = r.Snapshot()
		for _, f := range r.Forward {
			wr := WireResult{Name: f.Name}
			func() {
				defer func() {
					if p := recover(); p != nil {
						wr.Err = fmt.Errorf("PANIC: %v", p)
					}
				}()
				wr.After, wr.Desc, wr.Err = f.Fn(ctx, rec.Before, src)
			}()
			rec.Wire = append(rec.Wire, wr)
		}
	}
	r.mu.Lock()
	defer r.mu.Unlock()
	if r.FailNext > 0 {
		r.FailNext--
		rec.Failed = true
		r.Sets = append(r.Sets, rec)
		return nil, fmt.Errorf("recdev: device rejected the change (scripted)")
	}
	r.Sets = append(r.Sets, rec)
	ApplyToConfig(r.Config, dels, upds)
	if r.PostHook != nil {
		if err := r.PostHook(n); err != nil {
			return nil, err
		}
	}
	return &sdcpb.SetDataResponse{}, nil
}

// ApplyToConfig applies deletes (path-element granularity, partial keys are wildcards) and then updates.
func ApplyToConfig(cfg map[string]string, dels []*sdcpb.Path, upds []*sdcpb.Update) {
	for _, d := range dels {
		dp := model.FromPb(d)
		for k := range cfg {
			if dp.Covers(model.Parse(k)) {
				delete(cfg, k)
			}
		}
	}
	for _, u := range upds {
		cfg[model.FromPb(u.GetPath()).String()] = model.TvString(u.GetValue())
	}
}

func captureViews(ctx context.Context, src target.TargetSource) *Views {
	v := &Views{JSON: map[bool]string{}, JSONIETF: map[bool]string{}, XML: map[XMLOpt]string{}}
	safe := func(name string, f func() error) {
		defer func() {
			if x := recover(); x != nil {
				st := string(debug.Stack())
				if len(st) > 3000 {
					st = st[:3000]
				}
				v.Errors = append(v.Errors, fmt.Sprintf("%s: PANIC %v\n%s", name, x, st))
			}
		}()
		if err := f(); err != nil {
			v.Errors = append(v.Errors, fmt.Sprintf("%s: %v", name, err))
		}
	}
	safe("proto(all)", func() error {
		u, err := src.ToProtoUpdates(ctx, false)
		v.ProtoAll = u
		return err
	})
	for _, only := range []bool{true, false} {
		only := only
		safe(fmt.Sprintf("json(only=%v)", only), func() error {
			j, err := src.ToJson(only)
			if err != nil {
				return err
			}
			b, err := json.Marshal(j)
			v.JSON[only] = string(b)
			return err
		})
		safe(fmt.Sprintf("jsonietf(only=%v)", only), func() error {
			j, err := src.ToJsonIETF(only)
			if err != nil {
				return err
			}
			b, err := json.Marshal(j)
			v.JSONIETF[only] = string(b)
			return err
		})
		for i := 0; i < 8; i++ {
			o := XMLOpt{OnlyNew: only, HonorNS: i&1 != 0, OpWithNS: i&2 != 0, UseRemove: i&4 != 0}
			safe(fmt.Sprintf("xml(%+v)", o), func() error {
				d, err := src.ToXML(o.OnlyNew, o.HonorNS, o.OpWithNS, o.UseRemove)
				if err != nil {
					return err
				}
				s, err := d.WriteToString()
				v.XML[o] = s
				return err
			})
		}
	}
	return v
}

func (r *RecDev) Sync(ctx context.Context, syncConfig *config.Sync, syncCh chan *target.SyncUpdate) {
	if r.SyncFn != nil {
		r.SyncFn(ctx, syncConfig, syncCh)
	}
}

func (r *RecDev) Status() *target.TargetStatus {
	return target.NewTargetStatus(target.TargetStatusConnected)
}
func (r *RecDev) Close() error { return nil }

// PayloadKey renders a payload canonically (sorted).
func PayloadKey(upds []*sdcpb.Update, dels []*sdcpb.Path) string {
	l := []string{}
	for _, d := range dels {
		l = append(l, "D "+model.FromPb(d).String())
	}
	for _, u := range upds {
		l = append(l, "U "+model.FromPb(u.GetPath()).String()+"="+model.TvString(u.GetValue()))
	}
	sort.Strings(l)
	// a delete (or update) listed twice denotes the same change as listed once
	u := l[:0]
	for i, x := range l {
		if i == 0 || x != l[i-1] {
			u = append(u, x)
		}
	}
	l = u
	s := ""
	for i, x := range l {
		if i > 0 {
			s += "; "
		}
		s += x
	}
	return s
}

// AllSets returns a copy of the recorded Set calls.
func (r *RecDev) AllSets() []*SetRecord {
	r.mu.Lock()
	defer r.mu.Unlock()
	return append([]*SetRecord{}, r.Sets...)
}
