// Package fixture builds the real stack around harness-controlled collaborators:
// real schema store (verification YANG), real badger-backed local cache, real Datastore,
// recording device.
package fixture

import (
	"context"
	"fmt"
	"os"
	"path/filepath"
	"runtime"
	"sort"
	"strings"
	"sync"

	cconfig "github.com/sdcio/cache/pkg/config"
	"github.com/sdcio/cache/proto/cachepb"
	"github.com/sdcio/data-server/pkg/cache"
	"github.com/sdcio/data-server/pkg/config"
	"github.com/sdcio/data-server/pkg/datastore"
	"github.com/sdcio/data-server/pkg/datastore/target"
	dschema "github.com/sdcio/data-server/pkg/schema"
	sConfig "github.com/sdcio/schema-server/pkg/config"
	"github.com/sdcio/schema-server/pkg/schema"
	"github.com/sdcio/schema-server/pkg/store/memstore"
	log "github.com/sirupsen/logrus"

	"verifharness/internal/model"
)

const (
	SchemaName    = "vf"
	SchemaVendor  = "verif"
	SchemaVersion = "1"
)

var (
	schemaOnce   sync.Once
	schemaClient dschema.Client
	schemaErr    error
)

// YangDir locates harness/yang relative to this source file or VERIF_YANG.
func YangDir() string {
	if d := os.Getenv("VERIF_YANG"); d != "" {
		return d
	}
	_, f, _, _ := runtime.Caller(0)
	return filepath.Join(filepath.Dir(f), "..", "..", "yang")
}

// Quiet silences data-server's logging and its stdout prints (storeSyncMsg prints every update).
func Quiet() {
	log.SetLevel(log.PanicLevel)
	log.SetOutput(os.Stderr)
	if os.Getenv("VERIF_KEEP_STDOUT") == "" {
		if f, err := os.OpenFile(os.DevNull, os.O_WRONLY, 0); err == nil {
			os.Stdout = f
		}
	}
}

// Schema returns the process wide schema client over the verification YANG.
func Schema() (dschema.Client, error) {
	schemaOnce.Do(func() {
		ms := memstore.New()
		sc := &sConfig.SchemaConfig{Name: SchemaName, Vendor: SchemaVendor, Version: SchemaVersion, Files: []string{YangDir()}}
		s, err := schema.NewSchema(sc)
		if err != nil {
			schemaErr = fmt.Errorf("loading verification schema from %s: %w", YangDir(), err)
			return
		}
		ms.AddSchema(s)
		schemaClient = dschema.NewLocalClient(ms)
	})
	return schemaClient, schemaErr
}

func SchemaConfig() *config.SchemaConfig {
	return &config.SchemaConfig{Name: SchemaName, Vendor: SchemaVendor, Version: SchemaVersion}
}

// NewCache opens a real local cache in dir.
func NewCache(dir string) (cache.Client, error) {
	return cache.NewLocalCache(&cconfig.CacheConfig{StoreType: "badgerdb", Dir: dir})
}

// Env is one worker's long lived environment: schema client + one cache.
type Env struct {
	Schema dschema.Client
	Cache  cache.Client
	Dir    string
	seq    int
}

func NewEnv(scratch string) (*Env, error) {
	sc, err := Schema()
	if err != nil {
		return nil, err
	}
	dir := filepath.Join(scratch, "cache")
	if err := os.MkdirAll(dir, 0o755); err != nil {
		return nil, err
	}
	cc, err := NewCache(dir)
	if err != nil {
		return nil, err
	}
	return &Env{Schema: sc, Cache: cc, Dir: dir}, nil
}

// DS is one datastore instance with its recording device.
type DS struct {
	*datastore.Datastore
	Name   string
	Dev    *RecDev
	Cache  cache.Client
	Env    *Env
	cancel context.CancelFunc
	Cfg    *config.DatastoreConfig
}

type DSOpts struct {
	Validation *config.Validation
	Sync       *config.Sync
	Cache      cache.Client   // optional decorated cache client
	Schema     dschema.Client // optional decorated schema client
	Target     target.Target  // optional instead of RecDev
	Views      bool           // capture all encodings in RecDev
	Name       string
	Dev        *RecDev // optional: an existing recording device (a datastore re-opened over the same device)
}

// NewDS creates a datastore with a fresh cache instance name.
func (e *Env) NewDS(o DSOpts) *DS {
	e.seq++
	name := o.Name
	if name == "" {
		name = fmt.Sprintf("ds%d", e.seq)
	}
	val := o.Validation
	if val == nil {
		val = &config.Validation{}
	}
	cfg := &config.DatastoreConfig{Name: name, Schema: SchemaConfig(), SBI: &config.SBI{Type: "noop"}, Validation: val, Sync: o.Sync}
	cc := o.Cache
	if cc == nil {
		cc = e.Cache
	}
	sc := o.Schema
	if sc == nil {
		sc = e.Schema
	}
	dev := o.Dev
	if dev == nil {
		dev = NewRecDev()
	}
	dev.CaptureViews = o.Views
	var tgt target.Target = dev
	if o.Target != nil {
		tgt = o.Target
	}
	ctx, cancel := context.WithCancel(context.Background())
	ds := datastore.NewWithTarget(ctx, cfg, sc, cc, tgt)
	return &DS{Datastore: ds, Name: name, Dev: dev, Cache: cc, Env: e, cancel: cancel, Cfg: cfg}
}

// Close stops the datastore and deletes its cache instance.
// Abandon stops using the datastore object without touching its cache instance (the process "died").
func (d *DS) Abandon() {
	d.cancel()
}

func (d *DS) Close() {
	d.cancel()
	d.Datastore.Stop()
	d.Env.Cache.Delete(context.Background(), d.Name)
}

// ---------------------------------------------------------------------------------------------
// store dumps through the collaborator interface

// IntendedEntry is one stored version in the intended store.
type IntendedEntry struct {
	Path     string // "," joined cache path
	Owner    string
	Priority int32
	Value    string
	TS       int64
}

func (e IntendedEntry) Key() string {
	return fmt.Sprintf("%s|%s|%d", e.Path, e.Owner, e.Priority)
}

// DumpIntended returns every stored version of every entry of the intended store.
func DumpIntended(ctx context.Context, cc cache.Client, name string) ([]IntendedEntry, error) {
	ch, err := cc.GetKeys(ctx, name, cachepb.Store_INTENDED)
	if err != nil {
		return nil, err
	}
	type km struct {
		path  []string
		owner string
		prio  int32
	}
	seen := map[string]bool{}
	var kms []km
	for u := range ch {
		k := fmt.Sprintf("%q|%s|%d", u.GetPath(), u.Owner(), u.Priority())
		if seen[k] {
			continue
		}
		seen[k] = true
		kms = append(kms, km{u.GetPath(), u.Owner(), u.Priority()})
	}
	var res []IntendedEntry
	for _, k := range kms {
		us := cc.Read(ctx, name, &cache.Opts{Store: cachepb.Store_INTENDED, Owner: k.owner, Priority: k.prio}, [][]string{k.path}, 0)
		for _, u := range us {
			// the cache answers with a byte-prefix match: keep exact path matches only
			if strings.Join(u.GetPath(), "\x00") != strings.Join(k.path, "\x00") {
				continue
			}
			tv, err := u.Value()
			vs := "<undecodable>"
			if err == nil {
				vs = model.TvString(tv)
			}
			res = append(res, IntendedEntry{Path: strings.Join(u.GetPath(), ","), Owner: u.Owner(), Priority: u.Priority(), Value: vs, TS: u.TS()})
		}
	}
	sort.Slice(res, func(i, j int) bool {
		if res[i].Key() != res[j].Key() {
			return res[i].Key() < res[j].Key()
		}
		return res[i].TS < res[j].TS
	})
	return res, nil
}

// IntendedMap collapses a dump to key -> value of the newest version and reports keys with several versions.
func IntendedMap(d []IntendedEntry) (m map[string]string, multi []string) {
	m = map[string]string{}
	cnt := map[string]int{}
	for _, e := range d {
		m[e.Key()] = e.Value // sorted by TS ascending: last wins
		cnt[e.Key()]++
	}
	for k, c := range cnt {
		if c > 1 {
			multi = append(multi, k)
		}
	}
	sort.Strings(multi)
	return
}

// DumpStore returns path -> value of the CONFIG or STATE store ("," joined cache paths).
func DumpStore(ctx context.Context, cc cache.Client, name string, store cachepb.Store) (map[string]string, error) {
	got := map[string]string{}
	for u := range cc.ReadCh(ctx, name, &cache.Opts{Store: store}, [][]string{nil}, 0) {
		tv, err := u.Value()
		vs := "<undecodable>"
		if err == nil {
			vs = model.TvString(tv)
		}
		got[strings.Join(u.GetPath(), ",")] = vs
	}
	return got, nil
}

func MapDiff(a, b map[string]string) string {
	var d []string
	for k, v := range a {
		if bv, ok := b[k]; !ok {
			d = append(d, "only-before "+k+"="+v)
		} else if bv != v {
			d = append(d, "changed "+k+": "+v+" -> "+bv)
		}
	}
	for k, v := range b {
		if _, ok := a[k]; !ok {
			d = append(d, "only-after "+k+"="+v)
		}
	}
	sort.Strings(d)
	if len(d) > 8 {
		d = append(d[:8], fmt.Sprintf("... %d more", len(d)-8))
	}
	return strings.Join(d, "; ")
}
