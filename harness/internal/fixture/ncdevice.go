package fixture

import (
	"crypto/ed25519"
	"crypto/rand"
	"fmt"
	"net"
	"regexp"
	"strings"
	"sync"

	"golang.org/x/crypto/ssh"
)

// NCDevice is a NETCONF-over-SSH device on loopback (base:1.0 framing, candidate capability) that the production
// NETCONF target reaches through the real scrapligo driver. It keeps a candidate and a running "datastore" as lists of
// the <config> documents it received, records every rpc, and answers according to a script.
type NCDevice struct {
	mu sync.Mutex
	// Rpcs received, in order: "edit-config:candidate", "edit-config:running", "commit", "discard-changes", "get-config", ...
	Rpcs []NCRpc
	// Candidate / Running: the config documents staged / committed
	Candidate []string
	Running   []string
	// Plan: op -> queue of reply styles for the next rpcs of that op ("" or missing = ok)
	// styles: ok | error | error-prefixed | warning | garbage
	Plan map[string][]string
	// GetConfigDoc is the <data> content returned by get-config
	GetConfigDoc string

	ln net.Listener
}

// NCRpc is one rpc the device received.
type NCRpc struct {
	Op    string
	Doc   string // <config> content of an edit-config
	Style string // how it was answered
}

const ncDelim = "]]>]]>"

var (
	ncMessageID = regexp.MustCompile(`message-id="([^"]+)"`)
	ncConfig    = regexp.MustCompile(`(?s)<config[^>]*>(.*)</config>`)
)

func NewNCDevice() (*NCDevice, error) {
	_, priv, err := ed25519.GenerateKey(rand.Reader)
	if err != nil {
		return nil, err
	}
	signer, err := ssh.NewSignerFromKey(priv)
	if err != nil {
		return nil, err
	}
	cfg := &ssh.ServerConfig{PasswordCallback: func(ssh.ConnMetadata, []byte) (*ssh.Permissions, error) { return nil, nil }}
	cfg.AddHostKey(signer)
	ln, err := net.Listen("tcp", "127.0.0.1:0")
	if err != nil {
		return nil, err
	}
	d := &NCDevice{ln: ln, Plan: map[string][]string{}}
	go func() {
		for {
			c, err := ln.Accept()
			if err != nil {
				return
			}
			go d.serve(c, cfg)
		}
	}()
	return d, nil
}

func (d *NCDevice) Port() uint32 { return uint32(d.ln.Addr().(*net.TCPAddr).Port) }
func (d *NCDevice) Close()       { d.ln.Close() }

func (d *NCDevice) serve(c net.Conn, cfg *ssh.ServerConfig) {
	defer c.Close()
	_, chans, reqs, err := ssh.NewServerConn(c, cfg)
	if err != nil {
		return
	}
	go ssh.DiscardRequests(reqs)
	for nc := range chans {
		if nc.ChannelType() != "session" {
			nc.Reject(ssh.UnknownChannelType, "session only")
			continue
		}
		ch, chReqs, err := nc.Accept()
		if err != nil {
			return
		}
		go func() {
			for r := range chReqs {
				ok := r.Type == "subsystem" && strings.Contains(string(r.Payload), "netconf")
				if r.WantReply {
					r.Reply(ok, nil)
				}
				if ok {
					go d.session(ch)
				}
			}
		}()
	}
}

func (d *NCDevice) session(ch ssh.Channel) {
	defer ch.Close()
	fmt.Fprintf(ch, `<?xml version="1.0" encoding="UTF-8"?>
<hello xmlns="urn:ietf:params:xml:ns:netconf:base:1.0">
<capabilities>
<capability>urn:ietf:params:netconf:base:1.0</capability>
<capability>urn:ietf:params:netconf:capability:candidate:1.0</capability>
</capabilities>
<session-id>7</session-id>
</hello>%s`, ncDelim)
	buf := []byte{}
	tmp := make([]byte, 8192)
	for {
		n, err := ch.Read(tmp)
		if err != nil {
			return
		}
		buf = append(buf, tmp[:n]...)
		for {
			idx := strings.Index(string(buf), ncDelim)
			if idx < 0 {
				break
			}
			msg := string(buf[:idx])
			buf = buf[idx+len(ncDelim):]
			if reply := d.handle(msg); reply != "" {
				fmt.Fprintf(ch, "%s%s\n", reply, ncDelim)
			}
		}
	}
}

func (d *NCDevice) next(op string) string {
	q := d.Plan[op]
	if len(q) == 0 {
		return "ok"
	}
	s := q[0]
	d.Plan[op] = q[1:]
	if s == "" {
		s = "ok"
	}
	return s
}

func ncErrorReply(id, style string) string {
	switch style {
	case "error":
		return fmt.Sprintf(`<rpc-reply xmlns="urn:ietf:params:xml:ns:netconf:base:1.0" message-id="%s">
<rpc-error>
<error-type>application</error-type>
<error-tag>operation-failed</error-tag>
<error-severity>error</error-severity>
<error-message>scripted failure</error-message>
</rpc-error>
</rpc-reply>`, id)
	case "error-prefixed":
		return fmt.Sprintf(`<nc:rpc-reply xmlns:nc="urn:ietf:params:xml:ns:netconf:base:1.0" message-id="%s">
<nc:rpc-error>
<nc:error-type>application</nc:error-type>
<nc:error-tag>operation-failed</nc:error-tag>
<nc:error-severity>error</nc:error-severity>
<nc:error-message>scripted failure</nc:error-message>
</nc:rpc-error>
</nc:rpc-reply>`, id)
	case "warning":
		return fmt.Sprintf(`<rpc-reply xmlns="urn:ietf:params:xml:ns:netconf:base:1.0" message-id="%s">
<rpc-error>
<error-type>application</error-type>
<error-tag>operation-failed</error-tag>
<error-severity>warning</error-severity>
<error-message>scripted warning</error-message>
</rpc-error>
<ok/>
</rpc-reply>`, id)
	case "warning+error", "error+warning":
		// a reply that carries a warning and an error: the operation failed
		w := `<rpc-error>
<error-type>application</error-type>
<error-tag>operation-failed</error-tag>
<error-severity>warning</error-severity>
<error-message>scripted warning</error-message>
</rpc-error>`
		e := `<rpc-error>
<error-type>application</error-type>
<error-tag>operation-failed</error-tag>
<error-severity>error</error-severity>
<error-message>scripted failure</error-message>
</rpc-error>`
		body := w + "\n" + e
		if style == "error+warning" {
			body = e + "\n" + w
		}
		return fmt.Sprintf(`<rpc-reply xmlns="urn:ietf:params:xml:ns:netconf:base:1.0" message-id="%s">
%s
</rpc-reply>`, id, body)
	}
	return ""
}

func (d *NCDevice) handle(msg string) string {
	if strings.Contains(msg, "<hello") {
		return ""
	}
	id := "0"
	if m := ncMessageID.FindStringSubmatch(msg); m != nil {
		id = m[1]
	}
	ok := fmt.Sprintf(`<rpc-reply xmlns="urn:ietf:params:xml:ns:netconf:base:1.0" message-id="%s"><ok/></rpc-reply>`, id)
	d.mu.Lock()
	defer d.mu.Unlock()
	answer := func(op, doc string, apply func()) string {
		style := d.next(op)
		d.Rpcs = append(d.Rpcs, NCRpc{Op: op, Doc: doc, Style: style})
		switch style {
		case "ok":
			apply()
			return ok
		case "warning":
			apply()
			return ncErrorReply(id, style)
		default:
			return ncErrorReply(id, style)
		}
	}
	switch {
	case strings.Contains(msg, "<edit-config"):
		ds := "running"
		if strings.Contains(msg, "<candidate") {
			ds = "candidate"
		}
		cfg := ""
		if m := ncConfig.FindStringSubmatch(msg); m != nil {
			cfg = strings.TrimSpace(m[1])
		}
		return answer("edit-config:"+ds, cfg, func() {
			if ds == "candidate" {
				d.Candidate = append(d.Candidate, cfg)
			} else {
				d.Running = append(d.Running, cfg)
			}
		})
	case strings.Contains(msg, "<commit"):
		return answer("commit", "", func() {
			d.Running = append(d.Running, d.Candidate...)
			d.Candidate = nil
		})
	case strings.Contains(msg, "<discard-changes"):
		return answer("discard-changes", "", func() { d.Candidate = nil })
	case strings.Contains(msg, "<get-config") || strings.Contains(msg, "<get>") || strings.Contains(msg, "<get "):
		d.Rpcs = append(d.Rpcs, NCRpc{Op: "get-config", Style: "ok"})
		return fmt.Sprintf(`<rpc-reply xmlns="urn:ietf:params:xml:ns:netconf:base:1.0" message-id="%s"><data>%s</data></rpc-reply>`, id, d.GetConfigDoc)
	case strings.Contains(msg, "<close-session"):
		return ok
	}
	d.Rpcs = append(d.Rpcs, NCRpc{Op: "other", Style: "ok"})
	return ok
}

// SetGetConfigDoc sets the <data> content the device answers get-config with.
func (d *NCDevice) SetGetConfigDoc(doc string) {
	d.mu.Lock()
	defer d.mu.Unlock()
	d.GetConfigDoc = doc
}

// NumGetConfigs counts the get-config rpcs received.
func (d *NCDevice) NumGetConfigs() int {
	d.mu.Lock()
	defer d.mu.Unlock()
	n := 0
	for _, r := range d.Rpcs {
		if r.Op == "get-config" {
			n++
		}
	}
	return n
}

// Mark returns the number of rpcs received so far.
func (d *NCDevice) Mark() int {
	d.mu.Lock()
	defer d.mu.Unlock()
	return len(d.Rpcs)
}

// Since returns the rpcs received after the mark.
func (d *NCDevice) Since(mark int) []NCRpc {
	d.mu.Lock()
	defer d.mu.Unlock()
	return append([]NCRpc{}, d.Rpcs[mark:]...)
}

// Arm scripts the answer style of the next rpc of the given op.
func (d *NCDevice) Arm(op, style string) {
	d.mu.Lock()
	defer d.mu.Unlock()
	d.Plan[op] = append(d.Plan[op], style)
}

// ClearPlan drops what is left of the script.
func (d *NCDevice) ClearPlan() {
	d.mu.Lock()
	defer d.mu.Unlock()
	d.Plan = map[string][]string{}
}

// PendingDocs returns the documents staged in the candidate.
func (d *NCDevice) PendingDocs() []string {
	d.mu.Lock()
	defer d.mu.Unlock()
	return append([]string{}, d.Candidate...)
}

// DiscardByOperator empties the candidate (the operator cleans up).
func (d *NCDevice) DiscardByOperator() {
	d.mu.Lock()
	defer d.mu.Unlock()
	d.Candidate = nil
}
