package model

import (
	"fmt"
	"sort"
	"strings"
)

// Intent is one owner's last accepted intent: priority and leaf values (canonical path -> lexical value).
type Intent struct {
	Prio int32
	Vals map[string]string
}

// Expanded returns the leaves the server stores for the intent: its values plus the key leaves of every list entry on their paths.
func (in *Intent) Expanded() map[string]string {
	all := map[string]string{}
	for k, v := range in.Vals {
		p := Parse(k)
		all[p.String()] = v
		for kk, kv := range p.KeyLeaves() {
			all[kk] = kv
		}
	}
	return all
}

// Intents is the 40-line sequential reference: owner -> live intent.
type Intents struct {
	Live map[string]*Intent
	// Ever is every leaf path (incl. key leaves) any intent defined at any point of the history.
	Ever map[string]bool
	// EverEntries is every list-entry prefix in which some intent ever defined a value.
	EverEntries map[string]bool
	// Orphaned are leaves whose last owner was removed by an orphan delete (device keeps them by design).
	Orphaned map[string]bool
}

func NewIntents() *Intents {
	return &Intents{Live: map[string]*Intent{}, Ever: map[string]bool{}, EverEntries: map[string]bool{}, Orphaned: map[string]bool{}}
}

func (m *Intents) Clone() *Intents {
	c := NewIntents()
	for o, in := range m.Live {
		ni := &Intent{Prio: in.Prio, Vals: map[string]string{}}
		for k, v := range in.Vals {
			ni.Vals[k] = v
		}
		c.Live[o] = ni
	}
	for k := range m.Ever {
		c.Ever[k] = true
	}
	for k := range m.EverEntries {
		c.EverEntries[k] = true
	}
	for k := range m.Orphaned {
		c.Orphaned[k] = true
	}
	return c
}

// Set records owner's new version.
func (m *Intents) Set(owner string, in *Intent) {
	m.Live[owner] = in
	for k := range in.Expanded() {
		m.Ever[k] = true
		delete(m.Orphaned, k)
		for _, e := range Parse(k).ListEntryPrefixes() {
			m.EverEntries[e] = true
		}
	}
}

// Delete removes owner; with orphan the leaves only it defined become orphaned.
func (m *Intents) Delete(owner string, orphan bool) {
	old := m.Live[owner]
	delete(m.Live, owner)
	if old == nil || !orphan {
		return
	}
	w := m.Winners()
	for k := range old.Expanded() {
		if _, ok := w[k]; !ok {
			m.Orphaned[k] = true
		}
	}
}

// Winner is the ruling value of a leaf.
type Winner struct {
	Owner string
	Prio  int32
	Value string
}

// Winners computes for every leaf defined by a live intent the value of the numerically lowest priority.
func (m *Intents) Winners() map[string]Winner {
	res := map[string]Winner{}
	owners := make([]string, 0, len(m.Live))
	for o := range m.Live {
		owners = append(owners, o)
	}
	sort.Strings(owners)
	for _, o := range owners {
		in := m.Live[o]
		for k, v := range in.Expanded() {
			if w, ok := res[k]; !ok || in.Prio < w.Prio {
				res[k] = Winner{Owner: o, Prio: in.Prio, Value: v}
			}
		}
	}
	return res
}

// OwnersOf returns the number of live owners per leaf.
func (m *Intents) OwnersOf() map[string]int {
	res := map[string]int{}
	for _, in := range m.Live {
		for k := range in.Expanded() {
			res[k]++
		}
	}
	return res
}

// IntendedFlat is the expected content of the intended store: "cachepath|owner|prio" -> value,
// where cachepath is produced by the given path encoder.
func (m *Intents) IntendedFlat(enc func(Path) string) map[string]string {
	res := map[string]string{}
	for o, in := range m.Live {
		for k, v := range in.Expanded() {
			res[fmt.Sprintf("%s|%s|%d", enc(Parse(k)), o, in.Prio)] = v
		}
	}
	return res
}

// CachePath is the cache's path encoding: element names, each followed by its key values in the
// alphabetical order of the key names, joined with ','.
func CachePath(p Path) string {
	var parts []string
	for _, e := range p {
		parts = append(parts, e.Name)
		ks := make([]string, 0, len(e.Keys))
		for k := range e.Keys {
			ks = append(ks, k)
		}
		sort.Strings(ks)
		for _, k := range ks {
			parts = append(parts, e.Keys[k])
		}
	}
	return strings.Join(parts, ",")
}

func (m *Intents) String() string {
	owners := make([]string, 0, len(m.Live))
	for o := range m.Live {
		owners = append(owners, o)
	}
	sort.Strings(owners)
	var b strings.Builder
	for _, o := range owners {
		fmt.Fprintf(&b, "%s(p%d)%v ", o, m.Live[o].Prio, sortedMap(m.Live[o].Vals))
	}
	return b.String()
}

func sortedMap(m map[string]string) string {
	ks := make([]string, 0, len(m))
	for k := range m {
		ks = append(ks, k)
	}
	sort.Strings(ks)
	var b strings.Builder
	b.WriteByte('{')
	for i, k := range ks {
		if i > 0 {
			b.WriteString(", ")
		}
		b.WriteString(k + "=" + m[k])
	}
	b.WriteByte('}')
	return b.String()
}

func SortedMap(m map[string]string) string { return sortedMap(m) }
