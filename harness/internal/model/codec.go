package model

import (
	"fmt"
	"math/big"
	"strings"
)

// TypeDef describes a YANG leaf type of the verification schema (hand-written, cross-checked at start-up).
type TypeDef struct {
	Kind   string // int8..int64, uint8..uint64, decimal64, boolean, empty, string, enumeration, identityref, union, bits, binary, leafref
	FD     int    // fraction-digits of decimal64
	Enum   []string
	Union  []TypeDef
	Target *TypeDef // leafref target type
}

var intRanges = map[string][2]string{
	"int8": {"-128", "127"}, "int16": {"-32768", "32767"}, "int32": {"-2147483648", "2147483647"}, "int64": {"-9223372036854775808", "9223372036854775807"},
	"uint8": {"0", "255"}, "uint16": {"0", "65535"}, "uint32": {"0", "4294967295"}, "uint64": {"0", "18446744073709551615"},
}

// Canon maps a lexical representation of a value of type t to its canonical datum string.
func Canon(t TypeDef, lex string) (string, error) {
	switch t.Kind {
	case "int8", "int16", "int32", "int64", "uint8", "uint16", "uint32", "uint64":
		n, ok := new(big.Int).SetString(lex, 10)
		if !ok || strings.HasPrefix(lex, "+") || strings.ContainsAny(lex, " \t") {
			return "", fmt.Errorf("%q is no %s", lex, t.Kind)
		}
		r := intRanges[t.Kind]
		lo, _ := new(big.Int).SetString(r[0], 10)
		hi, _ := new(big.Int).SetString(r[1], 10)
		if n.Cmp(lo) < 0 || n.Cmp(hi) > 0 {
			return "", fmt.Errorf("%s out of range of %s", lex, t.Kind)
		}
		return n.String(), nil
	case "decimal64":
		if strings.ContainsAny(lex, "eE ") || lex == "" {
			return "", fmt.Errorf("%q is no decimal64", lex)
		}
		r, ok := new(big.Rat).SetString(lex)
		if !ok {
			return "", fmt.Errorf("%q is no decimal64", lex)
		}
		// at most FD fraction digits
		scaled := new(big.Rat).Mul(r, new(big.Rat).SetInt(new(big.Int).Exp(big.NewInt(10), big.NewInt(int64(t.FD)), nil)))
		if !scaled.IsInt() {
			return "", fmt.Errorf("%s has more than %d fraction digits", lex, t.FD)
		}
		lo, _ := new(big.Int).SetString("-9223372036854775808", 10)
		hi, _ := new(big.Int).SetString("9223372036854775807", 10)
		if scaled.Num().Cmp(lo) < 0 || scaled.Num().Cmp(hi) > 0 {
			return "", fmt.Errorf("%s out of range of decimal64", lex)
		}
		return RatString(r), nil
	case "boolean":
		if lex == "true" || lex == "false" {
			return lex, nil
		}
		return "", fmt.Errorf("%q is no boolean", lex)
	case "empty":
		if lex == "EMPTY" {
			return lex, nil
		}
		return "", fmt.Errorf("%q is not the empty value", lex)
	case "enumeration":
		for _, e := range t.Enum {
			if e == lex {
				return lex, nil
			}
		}
		return "", fmt.Errorf("%q is no member of the enumeration", lex)
	case "identityref":
		if i := strings.IndexByte(lex, ':'); i >= 0 {
			lex = lex[i+1:]
		}
		for _, e := range t.Enum {
			if e == lex {
				return lex, nil
			}
		}
		return "", fmt.Errorf("%q is no identity", lex)
	case "union":
		for _, m := range t.Union {
			if c, err := Canon(m, lex); err == nil {
				return m.Kind + ":" + c, nil
			}
		}
		return "", fmt.Errorf("%q matches no member of the union", lex)
	case "leafref":
		if t.Target != nil {
			return Canon(*t.Target, lex)
		}
		return lex, nil
	}
	// string, bits, binary
	return lex, nil
}

// CanonList canonicalises a leaf-list lexical form "LL:a,b".
func CanonList(t TypeDef, lex string) (string, error) {
	if !strings.HasPrefix(lex, "LL:") {
		return "", fmt.Errorf("%q is no leaf-list value", lex)
	}
	if lex == "LL:" {
		return "LL:", nil
	}
	var out []string
	for _, e := range strings.Split(lex[3:], ",") {
		c, err := Canon(t, e)
		if err != nil {
			return "", err
		}
		out = append(out, c)
	}
	return "LL:" + strings.Join(out, ","), nil
}

var idents = []string{"id-one", "id-two", "id-three"}

// LeafTypes: types of the leaves under /types (and a few others) by leaf name.
var LeafTypes = map[string]TypeDef{
	"i8": {Kind: "int8"}, "i16": {Kind: "int16"}, "i32": {Kind: "int32"}, "i64": {Kind: "int64"},
	"u8": {Kind: "uint8"}, "u16": {Kind: "uint16"}, "u32": {Kind: "uint32"}, "u64": {Kind: "uint64"},
	"d1": {Kind: "decimal64", FD: 1}, "d2": {Kind: "decimal64", FD: 2}, "d18": {Kind: "decimal64", FD: 18},
	"bool": {Kind: "boolean"}, "emp": {Kind: "empty"}, "str": {Kind: "string"},
	"en":    {Kind: "enumeration", Enum: []string{"one", "two", "t-h-r-e-e"}},
	"idref": {Kind: "identityref", Enum: idents},
	"un1":   {Kind: "union", Union: []TypeDef{{Kind: "uint8"}, {Kind: "enumeration", Enum: []string{"auto", "none"}}, {Kind: "string"}}},
	"un2":   {Kind: "union", Union: []TypeDef{{Kind: "int32"}, {Kind: "decimal64", FD: 2}}},
	"bits":  {Kind: "bits"}, "bin": {Kind: "binary"},
	"lr":  {Kind: "leafref", Target: &TypeDef{Kind: "uint16"}},
	"pct": {Kind: "uint8"},
	"iid": {Kind: "instance-identifier"},
	// leaf-lists (element types)
	"ll-str": {Kind: "string"}, "ll-u64": {Kind: "uint64"}, "ll-i8": {Kind: "int8"}, "ll-d2": {Kind: "decimal64", FD: 2},
	"ll-en": {Kind: "enumeration", Enum: []string{"one", "two"}}, "ll-idref": {Kind: "identityref", Enum: idents}, "ll-bool": {Kind: "boolean"},
}

// IdentityModule: module that defines an identity.
var IdentityModule = map[string]string{"id-one": "vft", "id-two": "vft", "id-three": "vfb"}
