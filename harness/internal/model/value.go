package model

import (
	"encoding/base64"
	"fmt"
	"math/big"
	"strconv"
	"strings"

	sdcpb "github.com/sdcio/sdc-protos/sdcpb"
)

// TvString renders a typed value as a kind-agnostic canonical string: the lexical YANG value.
// Leaf-lists are "LL:" + comma-joined elements, empty is "EMPTY". Used by oracles that compare
// values across stores / payloads where the generator supplies the same lexical forms.
func TvString(tv *sdcpb.TypedValue) string {
	if tv == nil {
		return "<nil>"
	}
	switch v := tv.Value.(type) {
	case *sdcpb.TypedValue_StringVal:
		return v.StringVal
	case *sdcpb.TypedValue_IntVal:
		return strconv.FormatInt(v.IntVal, 10)
	case *sdcpb.TypedValue_UintVal:
		return strconv.FormatUint(v.UintVal, 10)
	case *sdcpb.TypedValue_BoolVal:
		return strconv.FormatBool(v.BoolVal)
	case *sdcpb.TypedValue_BytesVal:
		return base64.StdEncoding.EncodeToString(v.BytesVal)
	case *sdcpb.TypedValue_FloatVal:
		return strconv.FormatFloat(float64(v.FloatVal), 'g', -1, 32)
	case *sdcpb.TypedValue_DoubleVal:
		return strconv.FormatFloat(v.DoubleVal, 'g', -1, 64)
	case *sdcpb.TypedValue_DecimalVal:
		return DecimalString(v.DecimalVal.GetDigits(), v.DecimalVal.GetPrecision())
	case *sdcpb.TypedValue_LeaflistVal:
		el := []string{}
		for _, e := range v.LeaflistVal.GetElement() {
			el = append(el, TvString(e))
		}
		return "LL:" + strings.Join(el, ",")
	case *sdcpb.TypedValue_EmptyVal:
		return "EMPTY"
	case *sdcpb.TypedValue_IdentityrefVal:
		return v.IdentityrefVal.GetValue()
	case *sdcpb.TypedValue_JsonVal:
		return "JSON:" + string(v.JsonVal)
	case *sdcpb.TypedValue_JsonIetfVal:
		return "JSONIETF:" + string(v.JsonIetfVal)
	case *sdcpb.TypedValue_AsciiVal:
		return v.AsciiVal
	case *sdcpb.TypedValue_AnyVal:
		return "ANY"
	case *sdcpb.TypedValue_ProtoBytes:
		return "PB:" + base64.StdEncoding.EncodeToString(v.ProtoBytes)
	case nil:
		return "<unset>"
	}
	return fmt.Sprintf("<?%T>", tv.Value)
}

// DecimalString renders digits * 10^-precision in canonical form (no trailing zeros, at least one fraction digit).
func DecimalString(digits int64, precision uint32) string {
	if precision > 64 {
		// not a decimal64 any more (at most 18 fraction digits): do not compute 10^precision
		return fmt.Sprintf("%de-%d", digits, precision)
	}
	r := new(big.Rat).SetFrac(big.NewInt(digits), new(big.Int).Exp(big.NewInt(10), big.NewInt(int64(precision)), nil))
	return RatString(r)
}

func RatString(r *big.Rat) string {
	s := r.FloatString(18)
	if strings.Contains(s, ".") {
		s = strings.TrimRight(s, "0")
		if strings.HasSuffix(s, ".") {
			s += "0"
		}
	}
	return s
}

// MkTv builds the typed value a client would send for the generator's lexical value form.
func MkTv(v string) *sdcpb.TypedValue {
	if v == "EMPTY" {
		return &sdcpb.TypedValue{Value: &sdcpb.TypedValue_EmptyVal{}}
	}
	if strings.HasPrefix(v, "LL:") {
		arr := &sdcpb.ScalarArray{}
		if len(v) > 3 {
			for _, e := range strings.Split(v[3:], ",") {
				arr.Element = append(arr.Element, &sdcpb.TypedValue{Value: &sdcpb.TypedValue_StringVal{StringVal: e}})
			}
		}
		return &sdcpb.TypedValue{Value: &sdcpb.TypedValue_LeaflistVal{LeaflistVal: arr}}
	}
	return &sdcpb.TypedValue{Value: &sdcpb.TypedValue_StringVal{StringVal: v}}
}
