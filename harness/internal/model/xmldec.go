package model

import (
	"encoding/xml"
	"fmt"
	"strings"
)

const NetconfBaseNS = "urn:ietf:params:xml:ns:netconf:base:1.0"

// XMLChange is what a NETCONF edit-config document denotes.
type XMLChange struct {
	Writes  map[string]string // canonical path -> lexical value
	Deletes []Path            // subtree roots (operation delete / remove / replace)
	Issues  []string          // structural problems (namespace, key order, names, operation attribute)
}

type xnode struct {
	name     xml.Name
	attrs    []xml.Attr
	text     string
	children []*xnode
}

func parseXML(doc string) (*xnode, error) {
	dec := xml.NewDecoder(strings.NewReader(doc))
	root := &xnode{}
	stack := []*xnode{root}
	for {
		tok, err := dec.Token()
		if err != nil {
			if err.Error() == "EOF" {
				break
			}
			return nil, err
		}
		switch t := tok.(type) {
		case xml.StartElement:
			n := &xnode{name: t.Name, attrs: append([]xml.Attr{}, t.Attr...)}
			top := stack[len(stack)-1]
			top.children = append(top.children, n)
			stack = append(stack, n)
		case xml.EndElement:
			stack = stack[:len(stack)-1]
		case xml.CharData:
			stack[len(stack)-1].text += string(t)
		}
	}
	return root, nil
}

// XMLOpts are the options the document was rendered with.
type XMLOpts struct {
	HonorNS, OpWithNS, UseRemove bool
}

func expectedModule(schemaPath string) string {
	best, mod := -1, "vfa"
	for p, m := range ModuleOf {
		if (schemaPath == p || strings.HasPrefix(schemaPath, p+"/")) && len(p) > best {
			best, mod = len(p), m
		}
	}
	return mod
}

var listBySchemaPath = map[string]string{}

func init() {
	for name, p := range ListPaths {
		listBySchemaPath[p] = name
	}
}

// DecodeXML decodes a change document.
func DecodeXML(doc string, o XMLOpts) (*XMLChange, error) {
	ch := &XMLChange{Writes: map[string]string{}}
	if strings.TrimSpace(doc) == "" {
		return ch, nil
	}
	root, err := parseXML(doc)
	if err != nil {
		return nil, err
	}
	for _, c := range root.children {
		decodeXMLNode(c, Path{}, "", ch, o)
	}
	return ch, nil
}

func (n *xnode) operation(o XMLOpts, ch *XMLChange, where string) string {
	op := ""
	for _, a := range n.attrs {
		if a.Name.Local != "operation" {
			continue
		}
		op = a.Value
		if o.OpWithNS && a.Name.Space != NetconfBaseNS {
			ch.Issues = append(ch.Issues, fmt.Sprintf("xml/operation-attribute-without-netconf-namespace: %s has operation=%q in namespace %q", where, a.Value, a.Name.Space))
		}
		if !o.OpWithNS && a.Name.Space != "" {
			ch.Issues = append(ch.Issues, fmt.Sprintf("xml/operation-attribute-with-unexpected-namespace: %s", where))
		}
		switch a.Value {
		case "replace":
		case "delete":
			if o.UseRemove {
				ch.Issues = append(ch.Issues, fmt.Sprintf("xml/delete-operation-although-remove-configured: %s", where))
			}
		case "remove":
			if !o.UseRemove {
				ch.Issues = append(ch.Issues, fmt.Sprintf("xml/remove-operation-although-delete-configured: %s", where))
			}
		default:
			ch.Issues = append(ch.Issues, fmt.Sprintf("xml/unknown-operation: %s operation=%q", where, a.Value))
		}
	}
	return op
}

func decodeXMLNode(n *xnode, parent Path, parentSchema string, ch *XMLChange, o XMLOpts) {
	name := n.name.Local
	schemaPath := parentSchema + "/" + name
	if name == "" {
		ch.Issues = append(ch.Issues, fmt.Sprintf("xml/element-without-name below %s", parent))
		return
	}
	// namespace
	wantNS := ModuleNamespace[expectedModule(schemaPath)]
	if o.HonorNS {
		if n.name.Space != wantNS {
			key := "xml/wrong-namespace"
			for _, a := range n.attrs {
				if a.Name.Local == "operation" && (a.Value == "delete" || a.Value == "remove") && len(n.children) == 0 {
					key = "xml/deleted-leaf-not-in-its-namespace"
				}
			}
			ch.Issues = append(ch.Issues, fmt.Sprintf("%s: element %s resolves to namespace %q, its schema node is in %q", key, schemaPath, n.name.Space, wantNS))
		}
	} else if n.name.Space != "" && n.name.Space != wantNS {
		ch.Issues = append(ch.Issues, fmt.Sprintf("xml/wrong-namespace: element %s declares namespace %q, its schema node is in %q", schemaPath, n.name.Space, wantNS))
	}
	e := Elem{Name: name}
	if lname, isList := listBySchemaPath[schemaPath]; isList {
		keys := ListKeys[lname]
		e.Keys = map[string]string{}
		// keys first, in key statement order
		for i, k := range keys {
			if i < len(n.children) && n.children[i].name.Local == k {
				e.Keys[k] = strings.TrimSpace(n.children[i].text)
				continue
			}
			found := false
			for _, c := range n.children {
				if c.name.Local == k {
					e.Keys[k] = strings.TrimSpace(c.text)
					found = true
				}
			}
			if found {
				ch.Issues = append(ch.Issues, fmt.Sprintf("xml/keys-not-first-in-key-order: list entry %s: key %s is not child number %d", schemaPath, k, i+1))
			} else {
				ch.Issues = append(ch.Issues, fmt.Sprintf("xml/list-entry-without-key: list entry %s lacks key %s", schemaPath, k))
			}
		}
	}
	p := append(append(Path{}, parent...), e)
	op := n.operation(o, ch, p.String())
	if op == "delete" || op == "remove" {
		ch.Deletes = append(ch.Deletes, p)
		return
	}
	if op == "replace" {
		ch.Deletes = append(ch.Deletes, p)
	}
	if len(n.children) == 0 {
		// leaf, leaf-list element, empty leaf or presence container
		v := n.text
		if LeafLists[schemaPath] {
			k := p.String()
			if old, ok := ch.Writes[k]; ok {
				ch.Writes[k] = old + "," + v
			} else {
				ch.Writes[k] = "LL:" + v
			}
			return
		}
		if v == "" {
			v = "EMPTY"
		}
		ch.Writes[p.String()] = v
		return
	}
	if PresenceContainers[p.String()] {
		// an element of a presence container that is merged creates the container
		ch.Writes[p.String()] = "EMPTY"
	}
	for _, c := range n.children {
		decodeXMLNode(c, p, schemaPath, ch, o)
	}
}

// ModuleOfSchemaPath returns the module a schema node belongs to.
func ModuleOfSchemaPath(sp string) string { return expectedModule(sp) }
