package model

import (
	"sort"
	"strings"
)

// EncodeXML renders a configuration (canonical path -> lexical value, "LL:a,b" for leaf-lists, "EMPTY" for empty leaves and
// presence markers) as the content of a NETCONF <data> element the way a device reports it: nested elements, the key
// leaves of a list entry first in key-statement order, one element per leaf-list entry, the namespace on the top-level
// elements (the module of an augmenting node on that node).
func EncodeXML(cfg map[string]string) string {
	type node struct {
		name     string
		keys     map[string]string
		value    *string
		children []*node
		index    map[string]*node
		path     Path
	}
	root := &node{index: map[string]*node{}}
	paths := make([]string, 0, len(cfg))
	for k := range cfg {
		paths = append(paths, k)
	}
	sort.Strings(paths)
	for _, k := range paths {
		v := cfg[k]
		cur := root
		p := Parse(k)
		for i, e := range p {
			id := p[:i+1].String()
			n, ok := cur.index[id]
			if !ok {
				n = &node{name: e.Name, keys: e.Keys, index: map[string]*node{}, path: p[:i+1]}
				cur.index[id] = n
				cur.children = append(cur.children, n)
			}
			cur = n
		}
		vv := v
		cur.value = &vv
	}
	esc := strings.NewReplacer("&", "&amp;", "<", "&lt;", ">", "&gt;")
	var sb strings.Builder
	var emit func(n *node, parentModule string)
	emit = func(n *node, parentModule string) {
		sp := SchemaPath(n.path)
		mod := ModuleOf[sp]
		if mod == "" {
			mod = parentModule
			if mod == "" {
				mod = "vfa"
			}
		}
		attr := ""
		if mod != parentModule {
			attr = ` xmlns="` + ModuleNamespace[mod] + `"`
		}
		if n.value != nil && LeafLists[sp] {
			for _, el := range strings.Split(strings.TrimPrefix(*n.value, "LL:"), ",") {
				sb.WriteString("<" + n.name + attr + ">" + esc.Replace(el) + "</" + n.name + ">")
			}
			return
		}
		if n.value != nil && len(n.children) == 0 {
			if *n.value == "EMPTY" {
				sb.WriteString("<" + n.name + attr + "/>")
			} else {
				sb.WriteString("<" + n.name + attr + ">" + esc.Replace(*n.value) + "</" + n.name + ">")
			}
			return
		}
		sb.WriteString("<" + n.name + attr + ">")
		done := map[string]bool{}
		if keys, ok := ListKeys[n.name]; ok && len(n.keys) > 0 {
			for _, kn := range keys {
				sb.WriteString("<" + kn + ">" + esc.Replace(n.keys[kn]) + "</" + kn + ">")
				done[kn] = true
			}
		}
		for _, c := range n.children {
			if done[c.name] && len(c.children) == 0 {
				continue
			}
			emit(c, mod)
		}
		sb.WriteString("</" + n.name + ">")
	}
	for _, c := range root.children {
		emit(c, "")
	}
	return sb.String()
}
