// Package model holds the small, independent reference models the oracles use.
// Nothing here imports data-server code.
package model

import (
	"fmt"
	"sort"
	"strings"

	sdcpb "github.com/sdcio/sdc-protos/sdcpb"
)

// Elem is one path element with its (possibly partial) keys.
type Elem struct {
	Name string
	Keys map[string]string
}

type Path []Elem

// FromPb converts a protobuf path (independent of data-server's helpers).
func FromPb(p *sdcpb.Path) Path {
	res := make(Path, 0, len(p.GetElem()))
	for _, e := range p.GetElem() {
		ne := Elem{Name: e.GetName()}
		if len(e.GetKey()) > 0 {
			ne.Keys = map[string]string{}
			for k, v := range e.GetKey() {
				ne.Keys[k] = v
			}
		}
		res = append(res, ne)
	}
	return res
}

func (p Path) ToPb() *sdcpb.Path {
	r := &sdcpb.Path{}
	for _, e := range p {
		pe := &sdcpb.PathElem{Name: e.Name}
		if len(e.Keys) > 0 {
			pe.Key = map[string]string{}
			for k, v := range e.Keys {
				pe.Key[k] = v
			}
		}
		r.Elem = append(r.Elem, pe)
	}
	return r
}

// String is the canonical text form: keys sorted by name, values quoted only through escaping of ']' and '\'.
func (p Path) String() string {
	var b strings.Builder
	if len(p) == 0 {
		return "/"
	}
	for _, e := range p {
		b.WriteByte('/')
		b.WriteString(e.Name)
		ks := make([]string, 0, len(e.Keys))
		for k := range e.Keys {
			ks = append(ks, k)
		}
		sort.Strings(ks)
		for _, k := range ks {
			b.WriteByte('[')
			b.WriteString(k)
			b.WriteByte('=')
			b.WriteString(strings.NewReplacer(`\`, `\\`, `]`, `\]`).Replace(e.Keys[k]))
			b.WriteByte(']')
		}
	}
	return b.String()
}

// Parse parses the canonical text form produced by String (and the plain xpath-like form used in tables).
func Parse(s string) Path {
	res := Path{}
	i := 0
	for i < len(s) {
		if s[i] != '/' {
			panic(fmt.Sprintf("model.Parse: bad path %q at %d", s, i))
		}
		i++
		j := i
		for j < len(s) && s[j] != '/' && s[j] != '[' {
			j++
		}
		if j == i {
			break
		}
		e := Elem{Name: s[i:j]}
		i = j
		for i < len(s) && s[i] == '[' {
			i++
			eq := strings.IndexByte(s[i:], '=')
			k := s[i : i+eq]
			i += eq + 1
			var v strings.Builder
			for i < len(s) && s[i] != ']' {
				if s[i] == '\\' && i+1 < len(s) {
					i++
				}
				v.WriteByte(s[i])
				i++
			}
			i++ // ]
			if e.Keys == nil {
				e.Keys = map[string]string{}
			}
			e.Keys[k] = v.String()
		}
		res = append(res, e)
	}
	return res
}

// Covers reports whether the (delete / request) path d covers p at path-element granularity:
// same element names, and every key d names has the same value in p. Keys d does not name are wildcards.
func (d Path) Covers(p Path) bool {
	if len(d) > len(p) {
		return false
	}
	for i, de := range d {
		if de.Name != p[i].Name {
			return false
		}
		for k, v := range de.Keys {
			if pv, ok := p[i].Keys[k]; !ok || pv != v {
				return false
			}
		}
	}
	return true
}

func (p Path) Equal(q Path) bool { return p.String() == q.String() }

// WithLeaf returns p[:n] + leaf element.
func (p Path) Child(name string) Path {
	r := make(Path, len(p), len(p)+1)
	copy(r, p)
	return append(r, Elem{Name: name})
}

// KeyLeaves returns the key leaves implied by the path: for every list element on the path, one leaf per key.
func (p Path) KeyLeaves() map[string]string {
	res := map[string]string{}
	for i, e := range p {
		for k, v := range e.Keys {
			res[p[:i+1].Child(k).String()] = v
		}
	}
	return res
}

// ListEntryPrefixes returns the canonical strings of every list-entry prefix of p (elements that carry keys).
func (p Path) ListEntryPrefixes() []string {
	var res []string
	for i, e := range p {
		if len(e.Keys) > 0 {
			res = append(res, p[:i+1].String())
		}
	}
	return res
}
