package model

import (
	"encoding/json"
	"fmt"
	"sort"
	"strings"
)

// DecodeJSON turns a JSON / JSON_IETF configuration document into leaves (canonical path -> lexical value).
// List entries are identified by their key members (schema table); module prefixes of JSON_IETF member names are
// stripped after recording them in prefixes (path -> module) for namespace checks.
func DecodeJSON(doc []byte, base Path) (map[string]string, map[string]string, error) {
	var v any
	dec := json.NewDecoder(strings.NewReader(string(doc)))
	dec.UseNumber()
	if err := dec.Decode(&v); err != nil {
		return nil, nil, err
	}
	leaves := map[string]string{}
	prefixes := map[string]string{}
	if v == nil {
		return leaves, prefixes, nil
	}
	err := decodeNode(v, base, leaves, prefixes)
	return leaves, prefixes, err
}

func stripPrefix(name string) (string, string) {
	if i := strings.IndexByte(name, ':'); i >= 0 {
		return name[i+1:], name[:i]
	}
	return name, ""
}

func lexical(v any) (string, bool) {
	switch x := v.(type) {
	case string:
		return x, true
	case json.Number:
		return x.String(), true
	case bool:
		if x {
			return "true", true
		}
		return "false", true
	}
	return "", false
}

func decodeNode(v any, at Path, leaves, prefixes map[string]string) error {
	obj, ok := v.(map[string]any)
	if !ok {
		return fmt.Errorf("expected an object at %s, got %T", at, v)
	}
	if len(obj) == 0 && len(at) > 0 {
		// empty object: presence container (or empty leaf)
		leaves[at.String()] = "EMPTY"
		return nil
	}
	names := make([]string, 0, len(obj))
	for k := range obj {
		names = append(names, k)
	}
	sort.Strings(names)
	for _, rawName := range names {
		val := obj[rawName]
		name, pfx := stripPrefix(rawName)
		child := at.Child(name)
		if pfx != "" {
			prefixes[SchemaPath(child)] = pfx
		}
		switch x := val.(type) {
		case map[string]any:
			if err := decodeNode(x, child, leaves, prefixes); err != nil {
				return err
			}
		case []any:
			if keys, isList := ListKeys[name]; isList && !LeafLists[SchemaPath(child)] {
				for _, ent := range x {
					eo, ok := ent.(map[string]any)
					if !ok {
						return fmt.Errorf("list %s: entry is %T", child, ent)
					}
					e := Elem{Name: name, Keys: map[string]string{}}
					for _, k := range keys {
						kv, found := eo[k]
						if !found {
							// IETF prefixed key member?
							for mk, mv := range eo {
								if n, _ := stripPrefix(mk); n == k {
									kv, found = mv, true
								}
							}
						}
						if !found {
							return fmt.Errorf("list %s: entry without key %s: %v", child, k, eo)
						}
						ls, ok := lexical(kv)
						if !ok {
							return fmt.Errorf("list %s: key %s has non scalar value %v", child, k, kv)
						}
						e.Keys[k] = ls
					}
					ep := append(append(Path{}, at...), e)
					if err := decodeNode(eo, ep, leaves, prefixes); err != nil {
						return err
					}
				}
				continue
			}
			// leaf-list (or IETF empty: [null])
			if len(x) == 1 && x[0] == nil {
				leaves[child.String()] = "EMPTY"
				continue
			}
			el := []string{}
			for _, e := range x {
				ls, ok := lexical(e)
				if !ok {
					return fmt.Errorf("leaf-list %s: element %v", child, e)
				}
				el = append(el, ls)
			}
			leaves[child.String()] = "LL:" + strings.Join(el, ",")
		case nil:
			leaves[child.String()] = "EMPTY"
		default:
			ls, _ := lexical(x)
			leaves[child.String()] = ls
		}
	}
	return nil
}
