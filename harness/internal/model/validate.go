package model

import (
	"regexp"
	"sort"
	"strconv"
	"strings"
)

// Reference validator for the constraint part of the verification schema (harness/yang/vfa.yang).
// Hand-written from the YANG text; a configuration is a map canonical path -> lexical value
// (leaf-lists "LL:a,b", presence containers / empty leaves "EMPTY"), key leaves included.

// Violation is one violated constraint instance.
type Violation struct {
	Class string // range | length | pattern | min-max-elements | mandatory | leafref | must
	Path  string
}

// ValidatorSwitch names the config.Validators switch that governs a class.
var ValidatorSwitch = map[string]string{
	"range": "Range", "length": "Length", "pattern": "Pattern", "min-max-elements": "LeafrefMinMaxAttributes",
	"mandatory": "Mandatory", "leafref": "Leafref", "must": "MustStatement",
}

type rng struct{ lo, hi int64 }

var rangeOf = []struct {
	re *regexp.Regexp
	r  []rng
}{
	{regexp.MustCompile(`^/sys/mtu$`), []rng{{68, 9000}}},
	{regexp.MustCompile(`^/if\[name=[^\]]*\]/unit\[id=[^\]]*\]/vlan$`), []rng{{1, 4094}}},
	{regexp.MustCompile(`^/cons/rng-s$`), []rng{{-10, -2}, {5, 9}}},
	{regexp.MustCompile(`^/cons/rng-u$`), []rng{{1, 10}, {20, 20}}},
	{regexp.MustCompile(`^/types/pct$`), []rng{{0, 100}}},
}

var lengthOf = map[string][2]int{"/sys/name": {1, 16}, "/cons/len": {2, 4}}

var patternOf = map[string][]*regexp.Regexp{
	"/cons/pat":  {regexp.MustCompile(`^([a-c]+)$`)},
	"/cons/pat2": {regexp.MustCompile(`^([0-9]+)$`), regexp.MustCompile(`^(1.*)$`)},
}

// min / max elements (0 = unbounded)
var elementsOf = map[string][2]int{"/cons/mm": {1, 3}, "/cons/mmin": {2, 0}, "/sys/dns": {0, 3}}

var ifNameRe = regexp.MustCompile(`^/if\[name=([^\]]*)\]/name$`)
var peerViaRe = regexp.MustCompile(`^/peer\[name=[^\]]*\]\[zone=[^\]]*\]/via$`)
var unitChkRe = regexp.MustCompile(`^(/if\[name=[^\]]*\])/unit\[id=[^\]]*\]/chk$`)
var peerViaUnitRe = regexp.MustCompile(`^(/peer\[name=[^\]]*\]\[zone=[^\]]*\])/via-unit$`)
var mlistRe = regexp.MustCompile(`^(/cons/mlist\[k=[^\]]*\])/`)

func llElems(v string) []string {
	if !strings.HasPrefix(v, "LL:") || v == "LL:" {
		return nil
	}
	return strings.Split(v[3:], ",")
}

// Validate returns the violated constraint instances of cfg, sorted; classes whose switch is in disabled are skipped.
func Validate(cfg map[string]string, disabled map[string]bool) []Violation {
	var out []Violation
	add := func(class, path string) {
		if !disabled[ValidatorSwitch[class]] {
			out = append(out, Violation{class, path})
		}
	}
	ifNames := map[string]bool{}
	for p := range cfg {
		if m := ifNameRe.FindStringSubmatch(p); m != nil {
			ifNames[m[1]] = true
		}
	}
	mandPresent := false
	mlistEntries := map[string]bool{}
	for p, v := range cfg {
		for _, ro := range rangeOf {
			if ro.re.MatchString(p) {
				n, err := strconv.ParseInt(v, 10, 64)
				ok := false
				for _, r := range ro.r {
					if err == nil && n >= r.lo && n <= r.hi {
						ok = true
					}
				}
				if !ok {
					add("range", p)
				}
			}
		}
		if l, ok := lengthOf[p]; ok {
			if n := len([]rune(v)); n < l[0] || n > l[1] {
				add("length", p)
			}
		}
		if pats, ok := patternOf[p]; ok {
			for _, re := range pats {
				if !re.MatchString(v) {
					add("pattern", p)
					break
				}
			}
		}
		if mm, ok := elementsOf[p]; ok {
			n := len(llElems(v))
			if n < mm[0] || (mm[1] > 0 && n > mm[1]) {
				add("min-max-elements", p)
			}
		}
		switch {
		case p == "/cons/lref" || peerViaRe.MatchString(p):
			if !ifNames[v] {
				add("leafref", p)
			}
		case peerViaUnitRe.MatchString(p):
			// /if[name=current()/../via]/unit/id : the unit must exist in the interface the peer's via names
			m := peerViaUnitRe.FindStringSubmatch(p)
			via, ok := cfg[m[1]+"/via"]
			if !ok {
				add("leafref", p)
			} else if _, ok := cfg["/if[name="+via+"]/unit[id="+v+"]/id"]; !ok {
				add("leafref", p)
			}
		case p == "/cons/lrefs":
			for _, e := range llElems(v) {
				if !ifNames[e] {
					add("leafref", p)
					break
				}
			}
		case p == "/cons/lref-rel":
			if n, ok := cfg["/sys/name"]; !ok || n != v {
				add("leafref", p)
			}
		case p == "/types/lr":
			if n, ok := cfg["/types/u16"]; !ok || n != v {
				add("leafref", p)
			}
		case p == "/cons/mst/b":
			if cfg["/cons/mst/a"] != "on" {
				add("must", p)
			}
		case p == "/cons/mst/f":
			if cfg["/cons/mst/e"] != "true" {
				add("must", p)
			}
		case p == "/cons/mst/h":
			// g has the default "gd"
			if g, ok := cfg["/cons/mst/g"]; ok && g != "gd" {
				add("must", p)
			}
		case p == "/cons/mst/k":
			// /sys/log/level has the default info; it is in use whether or not anything below /sys or /sys/log is configured
			// (RFC 7950 7.6.1: the ancestors are non-presence containers)
			if lv, ok := cfg["/sys/log/level"]; ok && lv != "info" {
				add("must", p)
			}
		case unitChkRe.MatchString(p):
			// enabled has the default true
			m := unitChkRe.FindStringSubmatch(p)
			if en, ok := cfg[m[1]+"/enabled"]; ok && en != "true" {
				add("must", p)
			}
		}
		if p == "/cons/mand" || strings.HasPrefix(p, "/cons/mand/") {
			mandPresent = true
		}
		if m := mlistRe.FindStringSubmatch(p); m != nil {
			mlistEntries[m[1]] = true
		}
	}
	if mandPresent {
		if _, ok := cfg["/cons/mand/must-have"]; !ok {
			add("mandatory", "/cons/mand/must-have")
		}
	}
	for e := range mlistEntries {
		if _, ok := cfg[e+"/req"]; !ok {
			add("mandatory", e+"/req")
		}
	}
	sort.Slice(out, func(i, j int) bool {
		if out[i].Class != out[j].Class {
			return out[i].Class < out[j].Class
		}
		return out[i].Path < out[j].Path
	})
	return out
}

// ViolationClasses is the sorted set of classes of vs.
func ViolationClasses(vs []Violation) []string {
	m := map[string]bool{}
	for _, v := range vs {
		m[v.Class] = true
	}
	out := []string{}
	for c := range m {
		out = append(out, c)
	}
	sort.Strings(out)
	return out
}
