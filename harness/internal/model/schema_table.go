package model

// ListKeys is the hand-written schema table of the verification YANG: list name -> key names in key-statement order.
// It is cross-checked against the schema client's answers at start-up of the checks that use it.
var ListKeys = map[string][]string{
	"if":         {"name"},
	"if-x":       {"name"},
	"unit":       {"id"},
	"peer":       {"zone", "name"},
	"peer-group": {"name"},
	"tri":        {"c", "a", "b"},
	"duo":        {"k1", "k2"},
	"svc":        {"id"},
	"bl":         {"k"},
	"mlist":      {"k"},
}

// ListPaths are the schema paths of the lists (for the start-up cross-check).
var ListPaths = map[string]string{
	"if": "/if", "if-x": "/if-x", "unit": "/if/unit", "peer": "/peer", "peer-group": "/peer-group", "tri": "/tri",
	"duo": "/duo", "svc": "/svc", "bl": "/sys/b-cont/bl", "mlist": "/cons/mlist",
}

// Namespaces: module of a node by schema path prefix (most specific wins); default module vfa.
var ModuleOf = map[string]string{
	"/sys/b-leaf":    "vfb",
	"/sys/b-cont":    "vfb",
	"/if/b-mode":     "vfb",
	"/if/cfg/b-flag": "vfb",
}

var ModuleNamespace = map[string]string{"vfa": "urn:verif:a", "vfb": "urn:verif:b", "vft": "urn:verif:t"}

// LeafLists are the schema paths of leaf-lists.
var LeafLists = map[string]bool{
	"/sys/dns": true, "/if/addrs": true, "/cons/mm": true, "/cons/mmin": true, "/cons/lrefs": true,
	"/types/ll-str": true, "/types/ll-u64": true, "/types/ll-i8": true, "/types/ll-d2": true, "/types/ll-en": true, "/types/ll-idref": true, "/types/ll-bool": true,
}

// SchemaPath strips the keys of an instance path.
func SchemaPath(p Path) string {
	s := ""
	for _, e := range p {
		s += "/" + e.Name
	}
	return s
}

// PresenceContainers are the instance paths of presence containers (none of them is inside a list).
var PresenceContainers = map[string]bool{"/pres": true, "/pres2": true, "/ch/gamma": true, "/ch/delta": true, "/cons/mand": true}
