// Package sched is the controlled scheduler over the verif yield points: goroutines of the code
// under test park at verifhook.Point(name); the scheduler releases one at a time following a
// choice vector, so interleavings are chosen, not hoped for.
package sched

import (
	"bytes"
	"runtime"
	"sort"
	"strconv"
	"strings"
	"sync"
	"time"

	"github.com/sdcio/data-server/pkg/verifhook"
)

func Goid() int64 {
	b := make([]byte, 64)
	b = b[:runtime.Stack(b, false)]
	b = bytes.TrimPrefix(b, []byte("goroutine "))
	i := bytes.IndexByte(b, ' ')
	n, _ := strconv.ParseInt(string(b[:i]), 10, 64)
	return n
}

// Event is the release of a participant from a yield point (or the arrival of an unnamed one at its exit point).
type Event struct {
	Label string
	T     int64
	Gid   int64
}

type parked struct {
	gid   int64
	point string
	rel   chan struct{}
}

// Sched controls one execution.
type Sched struct {
	mu       sync.Mutex
	enabled  bool
	prefixes []string // only points with these prefixes take part
	arrive   chan *parked
	finish   chan int64
	names    map[int64]string
	exempt   map[int64]bool
	Unnamed  string       // label for goroutines that did not register (the timer goroutine)
	ExitPt   string       // a point that means "this unnamed goroutine is finished"; released at once
	Clock    func() int64 // logical clock shared with the harness (optional)
	Events   []Event
	Settle   time.Duration
	Blocked  time.Duration // how long to wait for a released goroutine that neither parks nor finishes (blocked on a real lock)
}

func New(prefixes ...string) *Sched {
	return &Sched{prefixes: prefixes, arrive: make(chan *parked, 64), finish: make(chan int64, 64), names: map[int64]string{},
		Unnamed: "timer", ExitPt: "timer.exit", Settle: 4 * time.Millisecond, Blocked: 40 * time.Millisecond}
}

func (s *Sched) handler(name string) {
	s.mu.Lock()
	en := s.enabled
	s.mu.Unlock()
	if !en {
		return
	}
	gid := Goid()
	s.mu.Lock()
	ex := s.exempt[gid]
	s.mu.Unlock()
	if ex {
		return
	}
	ok := false
	for _, p := range s.prefixes {
		if strings.HasPrefix(name, p) {
			ok = true
			break
		}
	}
	if !ok {
		return
	}
	p := &parked{gid: gid, point: name, rel: make(chan struct{})}
	s.arrive <- p
	<-p.rel
}

// ExemptSelf makes the calling goroutine pass all yield points (the harness's own setup calls).
func (s *Sched) ExemptSelf() {
	s.mu.Lock()
	if s.exempt == nil {
		s.exempt = map[int64]bool{}
	}
	s.exempt[Goid()] = true
	s.mu.Unlock()
}

func (s *Sched) Enable() {
	s.mu.Lock()
	s.enabled = true
	s.mu.Unlock()
	verifhook.Set(s.handler)
}

// Disable turns the scheduler off and releases everything that is still parked.
func (s *Sched) Disable(live map[int64]*parked) {
	s.mu.Lock()
	s.enabled = false
	s.mu.Unlock()
	for _, p := range live {
		close(p.rel)
	}
	for {
		select {
		case p := <-s.arrive:
			close(p.rel)
			continue
		default:
		}
		break
	}
	verifhook.Set(nil)
}

// Go starts f as a named participant.
func (s *Sched) Go(name string, f func()) {
	started := make(chan struct{})
	go func() {
		gid := Goid()
		s.mu.Lock()
		s.names[gid] = name
		s.mu.Unlock()
		close(started)
		defer func() { s.finish <- gid }()
		f()
	}()
	<-started
}

func (s *Sched) event(label string, gid int64) {
	if s.Clock != nil {
		s.Events = append(s.Events, Event{Label: label, T: s.Clock(), Gid: gid})
	}
}

func (s *Sched) label(p *parked) string {
	s.mu.Lock()
	n := s.names[p.gid]
	s.mu.Unlock()
	if n == "" {
		n = s.Unnamed
	}
	return n + "@" + p.point
}

// Result of one controlled execution.
type Result struct {
	Trace   []string // chosen label at each step
	NOpts   []int    // number of options at each step
	Stuck   bool     // participants neither parked nor finished for the watchdog time
	Options [][]string
}

// Run drives the execution: nOps named participants were started with Go; expectUnnamed tells
// whether an unnamed participant (fired timer) is expected to show up at the beginning.
// choices[i] selects among the sorted options at step i (0 beyond the vector).
func (s *Sched) Run(nOps int, choices []int, watchdog time.Duration) *Result {
	res := &Result{}
	live := map[int64]*parked{}
	running := nOps // named participants that are neither parked nor finished
	finished := 0
	var lastReleased int64 = -1
	lastEvent := time.Now()
	for {
		// wait until nothing is running any more (everything parked, finished or blocked)
		timeout := s.Settle
		if running > 0 || lastReleased >= 0 {
			timeout = s.Blocked
		}
		for {
			select {
			case p := <-s.arrive:
				lastEvent = time.Now()
				s.mu.Lock()
				_, named := s.names[p.gid]
				s.mu.Unlock()
				if !named && p.point == s.ExitPt {
					s.event(s.label(p), p.gid)
					close(p.rel)
					if lastReleased == p.gid {
						lastReleased = -1
					}
					continue
				}
				if _, was := live[p.gid]; !was && named {
					running--
				}
				if lastReleased == p.gid {
					lastReleased = -1
				}
				live[p.gid] = p
				if running <= 0 && lastReleased < 0 {
					timeout = s.Settle
				}
				continue
			case gid := <-s.finish:
				lastEvent = time.Now()
				finished++
				running--
				if lastReleased == gid {
					lastReleased = -1
				}
				if running <= 0 && lastReleased < 0 {
					timeout = s.Settle
				}
				continue
			case <-time.After(timeout):
			}
			break
		}
		if len(live) == 0 {
			if finished >= nOps {
				// late arrivals (a timer that fires / is stopped)?
				select {
				case p := <-s.arrive:
					lastEvent = time.Now()
					if p.point == s.ExitPt {
						s.event(s.label(p), p.gid)
						close(p.rel)
					} else {
						live[p.gid] = p
					}
					continue
				case <-time.After(5 * s.Settle):
				}
				s.Disable(live)
				return res
			}
			if time.Since(lastEvent) > watchdog {
				res.Stuck = true
				s.Disable(live)
				return res
			}
			continue
		}
		opts := make([]*parked, 0, len(live))
		for _, p := range live {
			opts = append(opts, p)
		}
		sort.Slice(opts, func(i, j int) bool { return s.label(opts[i]) < s.label(opts[j]) })
		c := 0
		if len(res.NOpts) < len(choices) {
			c = choices[len(res.NOpts)]
		}
		if c >= len(opts) {
			c = 0
		}
		labels := make([]string, len(opts))
		for i, o := range opts {
			labels[i] = s.label(o)
		}
		res.NOpts = append(res.NOpts, len(opts))
		res.Options = append(res.Options, labels)
		res.Trace = append(res.Trace, labels[c])
		p := opts[c]
		delete(live, p.gid)
		s.mu.Lock()
		_, named := s.names[p.gid]
		s.mu.Unlock()
		if named {
			running++
		}
		lastReleased = p.gid
		lastEvent = time.Now()
		s.event(labels[c], p.gid)
		close(p.rel)
	}
}
