// Package core is the runner shared by all checks: deterministic case lists, worker child
// processes (one panic / fatal error must not end every monitor), three-valued verdicts,
// known-finding matching, evidence and replay files.
package core

import (
	"bufio"
	"crypto/sha256"
	"encoding/hex"
	"encoding/json"
	"fmt"
	"os"
	"os/exec"
	"path/filepath"
	"runtime"
	"sort"
	"strconv"
	"strings"
	"sync"
	"sync/atomic"
	"time"
)

const (
	Held         = "held"
	Violated     = "violated"
	Inconclusive = "inconclusive"
)

// Rng is a splitmix64 stream.
type Rng struct{ s uint64 }

func NewRng(seed uint64) *Rng { return &Rng{s: seed} }

func (r *Rng) Uint64() uint64 {
	r.s += 0x9e3779b97f4a7c15
	z := r.s
	z = (z ^ (z >> 30)) * 0xbf58476d1ce4e5b9
	z = (z ^ (z >> 27)) * 0x94d049bb133111eb
	return z ^ (z >> 31)
}

// Intn returns a value in [0,n).
func (r *Rng) Intn(n int) int {
	if n <= 0 {
		return 0
	}
	return int(r.Uint64() % uint64(n))
}

func (r *Rng) Bool() bool { return r.Uint64()&1 == 1 }

// Chance returns true with probability num/den.
func (r *Rng) Chance(num, den int) bool { return r.Intn(den) < num }

func (r *Rng) Perm(n int) []int {
	p := make([]int, n)
	for i := range p {
		p[i] = i
	}
	for i := n - 1; i > 0; i-- {
		j := r.Intn(i + 1)
		p[i], p[j] = p[j], p[i]
	}
	return p
}

// CaseSeed mixes run seed, property and index into a per-case seed.
func CaseSeed(seed uint64, prop string, idx int) uint64 {
	h := sha256.Sum256([]byte(fmt.Sprintf("%d|%s|%d", seed, prop, idx)))
	var v uint64
	for i := 0; i < 8; i++ {
		v = v<<8 | uint64(h[i])
	}
	return v
}

// Finding is one violation (or inconclusive observation) inside a case.
type Finding struct {
	Verdict string `json:"verdict"` // violated | inconclusive
	Key     string `json:"key"`     // deterministic class key (for known-finding matching)
	Detail  string `json:"detail"`  // witness
}

// CaseResult is what a worker reports for one case.
type CaseResult struct {
	Idx        int            `json:"idx"`
	Seed       uint64         `json:"seed"`
	Status     string         `json:"status"` // start | done
	Findings   []Finding      `json:"findings,omitempty"`
	Hash       string         `json:"hash,omitempty"`       // canonical hash of the case (distinctness)
	NonTrivial bool           `json:"nontrivial,omitempty"` // by the check's stated rule
	Counters   map[string]int `json:"counters,omitempty"`
	Sample     any            `json:"sample,omitempty"`
	Trace      []string       `json:"trace,omitempty"` // the executed case, for replay files
}

func (c *CaseResult) Violate(key, format string, a ...any) {
	c.Findings = append(c.Findings, Finding{Verdict: Violated, Key: key, Detail: fmt.Sprintf(format, a...)})
}
func (c *CaseResult) Inconclusive(key, format string, a ...any) {
	c.Findings = append(c.Findings, Finding{Verdict: Inconclusive, Key: key, Detail: fmt.Sprintf(format, a...)})
}
func (c *CaseResult) Count(name string, n int) {
	if c.Counters == nil {
		c.Counters = map[string]int{}
	}
	c.Counters[name] += n
}
func (c *CaseResult) Tracef(format string, a ...any) {
	c.Trace = append(c.Trace, fmt.Sprintf(format, a...))
}

func HashOf(parts ...string) string {
	h := sha256.Sum256([]byte(strings.Join(parts, "\x00")))
	return hex.EncodeToString(h[:8])
}

// Check is implemented once per property.
type Check interface {
	ID() string
	Level() string // exploration | fault_enumeration
	// NumCases is the size of the deterministic case list of a tier.
	NumCases(tier string) int
	// Setup is called once per worker process.
	Setup(w *Worker) error
	// RunCase executes case idx.
	RunCase(w *Worker, idx int, seed uint64, res *CaseResult)
	// Rule describes how cases are generated and what makes one non-trivial / distinct.
	Rule() string
	Assumptions() []string
}

// Optional interfaces.
type Exhaustive interface{ Exhaustive(tier string) bool }
type Race interface{ WantsRace() bool }
type WorkerLimiter interface{ MaxWorkers() int }
type CrashIsViolation interface {
	// CrashKey classifies a worker death on a case; ok=false => inconclusive for this property.
	CrashKey(stderrTail string) (key string, ok bool)
}
type PostProcessor interface {
	// PostProcess may add findings derived from worker side files (e.g. race logs). Called in the parent.
	PostProcess(scratch string, agg *Aggregate)
}

// Worker is the per-process context handed to checks.
type Worker struct {
	Tier    string
	Seed    uint64
	Scratch string // private scratch directory (removed by the parent)
	Verbose bool
	State   any
	// progress: unix nanoseconds of the last sign of life of the running case (see Progress)
	progress atomic.Int64
}

// Progress is called by a check from inside a long case (one call per schedule, per step ...): the case watchdog measures
// the time since the last call, not since the start of the case, so that it tells a case that does not move from one
// that is merely long on a loaded machine.
func (w *Worker) Progress() { w.progress.Store(time.Now().UnixNano()) }

// currentWorker: a worker process runs one worker.
var currentWorker atomic.Pointer[Worker]

// Progress reports a sign of life of the running case from code that has no Worker at hand.
func Progress() {
	if w := currentWorker.Load(); w != nil {
		w.Progress()
	}
}

type Aggregate struct {
	mu          sync.Mutex
	Results     []CaseResult
	Crashed     []CaseResult
	ExtraCounts map[string]int
	Extra       []Finding
}

// Out is the real stdout (checks silence os.Stdout because data-server prints to it).
var Out = os.Stdout

var checks = map[string]Check{}

func Register(c Check) { checks[c.ID()] = c }

func Lookup(id string) Check { return checks[id] }

func IDs() []string {
	var r []string
	for k := range checks {
		r = append(r, k)
	}
	sort.Strings(r)
	return r
}

// ---------------------------------------------------------------------------------------------
// worker side

func envSeed() uint64 {
	s := os.Getenv("VERIF_SEED")
	if s == "" {
		return 1
	}
	v, err := strconv.ParseInt(s, 10, 64)
	if err != nil {
		return 1
	}
	return uint64(v)
}

// RunWorker executes cases [from,to) writing one JSON line per event to out.
func RunWorker(c Check, tier string, seed uint64, from, to, stride int, outPath, scratch string) int {
	out, err := os.OpenFile(outPath, os.O_APPEND|os.O_CREATE|os.O_WRONLY, 0o644)
	if err != nil {
		fmt.Fprintln(os.Stderr, "worker: ", err)
		return 2
	}
	defer out.Close()
	w := &Worker{Tier: tier, Seed: seed, Scratch: scratch}
	currentWorker.Store(w)
	if err := c.Setup(w); err != nil {
		fmt.Fprintln(os.Stderr, "worker setup: ", err)
		return 2
	}
	enc := func(r *CaseResult) {
		b, _ := json.Marshal(r)
		out.Write(append(b, '\n'))
	}
	limit := 5 * time.Minute
	if ct, ok := c.(CaseTimeouter); ok {
		limit = ct.CaseTimeout(tier)
	}
	for i := from; i < to; i += stride {
		cs := CaseSeed(seed, c.ID(), i)
		enc(&CaseResult{Idx: i, Seed: cs, Status: "start"})
		res := &CaseResult{Idx: i, Seed: cs, Status: "done"}
		finished := make(chan struct{})
		go func() {
			runCaseRecover(c, w, i, cs, res)
			close(finished)
		}()
		w.Progress()
		stuck := false
	wait:
		for {
			select {
			case <-finished:
				enc(res)
				break wait
			case <-time.After(limit / 10):
				if time.Since(time.Unix(0, w.progress.Load())) > limit {
					stuck = true
					break wait
				}
			}
		}
		if stuck {
			// the case does not move (e.g. code under test spinning, a Stop() that waits for it): record it and give
			// the rest of the list to a new worker process; a goroutine cannot be killed
			buf := make([]byte, 1<<18)
			n := runtime.Stack(buf, true)
			fmt.Fprintf(os.Stderr, "CASE-WATCHDOG case %d did not end and showed no progress for %v\n%s\n", i, limit, buf[:n])
			return 3
		}
	}
	return 0
}

// CaseTimeouter lets a check set the watchdog of one case (default 5 minutes).
type CaseTimeouter interface {
	CaseTimeout(tier string) time.Duration
}

func runCaseRecover(c Check, w *Worker, i int, cs uint64, res *CaseResult) {
	defer func() {
		if r := recover(); r != nil {
			buf := make([]byte, 1<<14)
			n := runtime.Stack(buf, false)
			res.Inconclusive("harness-panic", "panic outside an observed API call: %v\n%s", r, buf[:n])
		}
	}()
	c.RunCase(w, i, cs, res)
}

// ---------------------------------------------------------------------------------------------
// parent side

type knownFinding struct {
	Status   string `json:"status"` // known | fixed
	Property string `json:"property"`
	Key      string `json:"key"`
	What     string `json:"what"`
	Commit   string `json:"commit,omitempty"`
}

func loadKnown(verifDir, prop string) map[string]knownFinding {
	res := map[string]knownFinding{}
	f, err := os.Open(filepath.Join(verifDir, "known_findings.txt"))
	if err != nil {
		return res
	}
	defer f.Close()
	sc := bufio.NewScanner(f)
	sc.Buffer(make([]byte, 1<<20), 1<<20)
	for sc.Scan() {
		line := strings.TrimSpace(sc.Text())
		// a "fixed:" entry suppresses nothing
		if !strings.HasPrefix(line, "known: ") {
			continue
		}
		fields := strings.SplitN(line[len("known: "):], " ", 3)
		if len(fields) < 3 || !strings.HasPrefix(fields[0], "property=") || !strings.HasPrefix(fields[1], "key=") {
			continue
		}
		if fields[0][len("property="):] != prop {
			continue
		}
		k := knownFinding{Status: "known", Property: prop, Key: fields[1][len("key="):], What: fields[2]}
		res[k.Key] = k
	}
	return res
}

type Options struct {
	Tier     string
	Seed     uint64
	VerifDir string
	Workers  int
	Only     int // >=0: run only this case in-process, verbose (replay)
}

// RunParent runs the whole check and returns the process exit code.
func RunParent(c Check, o Options) int {
	start := time.Now()
	n := c.NumCases(o.Tier)
	if n <= 0 {
		fmt.Fprintf(Out, "harness error: %s has no cases for tier %s\n", c.ID(), o.Tier)
		return 2
	}
	scratch, err := os.MkdirTemp("", "vcheck-"+c.ID()+"-")
	if err != nil {
		fmt.Fprintln(Out, "harness error:", err)
		return 2
	}
	defer os.RemoveAll(scratch)

	nw := o.Workers
	if nw <= 0 {
		nw = runtime.NumCPU()
	}
	if wl, ok := c.(WorkerLimiter); ok && wl.MaxWorkers() < nw {
		nw = wl.MaxWorkers()
	}
	if nw > n {
		nw = n
	}
	agg := &Aggregate{ExtraCounts: map[string]int{}}
	self, _ := os.Executable()

	var wg sync.WaitGroup
	harnessErr := make(chan string, nw*4)
	for wi := 0; wi < nw; wi++ {
		wg.Add(1)
		go func(wi int) {
			defer wg.Done()
			from := wi
			attempt := 0
			for from < n {
				attempt++
				outPath := filepath.Join(scratch, fmt.Sprintf("w%d.%d.jsonl", wi, attempt))
				logPath := filepath.Join(scratch, fmt.Sprintf("w%d.%d.log", wi, attempt))
				wscratch := filepath.Join(scratch, fmt.Sprintf("w%d.%d.d", wi, attempt))
				os.MkdirAll(wscratch, 0o755)
				logf, _ := os.Create(logPath)
				cmd := exec.Command(self, "worker", c.ID(), o.Tier, strconv.FormatUint(o.Seed, 10),
					strconv.Itoa(from), strconv.Itoa(n), strconv.Itoa(nw), outPath, wscratch)
				cmd.Stdout = logf
				cmd.Stderr = logf
				cmd.Env = append(os.Environ(), "GOTRACEBACK=all")
				if rc, ok := c.(Race); ok && rc.WantsRace() {
					cmd.Env = append(cmd.Env, "GORACE=halt_on_error=0 exitcode=0 log_path="+filepath.Join(scratch, "race"))
				}
				werr := cmd.Run()
				logf.Close()
				results, lastStart := readWorkerFile(outPath)
				agg.mu.Lock()
				agg.Results = append(agg.Results, results...)
				agg.mu.Unlock()
				os.RemoveAll(wscratch)
				if werr == nil {
					return
				}
				// the worker died: attribute to the case it had started but not finished
				full := tailOf(logPath, 200000)
				tail := full
				if i := strings.Index(tail, "CASE-WATCHDOG"); i >= 0 {
					// a goroutine dump: those with a frame of the code under test or of the check come first
					blocks := strings.Split(tail[i:], "\n\n")
					var first, rest []string
					for bi, b := range blocks {
						if bi == 0 || strings.Contains(b, "github.com/sdcio/data-server/") || strings.Contains(b, "verifharness/internal/checks") {
							first = append(first, b)
						} else {
							rest = append(rest, b)
						}
					}
					tail = strings.Join(append(first, rest...), "\n\n")
				}
				if len(tail) > 16000 {
					tail = tail[:16000]
				}
				if lastStart == nil {
					harnessErr <- fmt.Sprintf("worker %d died before starting a case: %v\n%s", wi, werr, tail)
					return
				}
				cr := *lastStart
				cr.Status = "crashed"
				cr.Findings = []Finding{{Verdict: Inconclusive, Key: "worker-died", Detail: fmt.Sprintf("%v\n%s", werr, tail)}}
				if cv, ok := c.(CrashIsViolation); ok {
					if key, isV := cv.CrashKey(full); isV {
						cr.Findings = []Finding{{Verdict: Violated, Key: key, Detail: fmt.Sprintf("worker process died: %v\n%s", werr, tail)}}
					}
				}
				agg.mu.Lock()
				agg.Crashed = append(agg.Crashed, cr)
				agg.mu.Unlock()
				from = cr.Idx + nw
				if attempt > 200 {
					harnessErr <- fmt.Sprintf("worker %d: too many restarts", wi)
					return
				}
			}
		}(wi)
	}
	wg.Wait()
	close(harnessErr)
	herrs := []string{}
	for e := range harnessErr {
		herrs = append(herrs, e)
	}
	if pp, ok := c.(PostProcessor); ok {
		pp.PostProcess(scratch, agg)
	}
	return finish(c, o, agg, n, herrs, time.Since(start))
}

func readWorkerFile(p string) (done []CaseResult, lastOpen *CaseResult) {
	f, err := os.Open(p)
	if err != nil {
		return nil, nil
	}
	defer f.Close()
	sc := bufio.NewScanner(f)
	sc.Buffer(make([]byte, 1<<20), 64<<20)
	var open *CaseResult
	for sc.Scan() {
		var r CaseResult
		if json.Unmarshal(sc.Bytes(), &r) != nil {
			continue
		}
		if r.Status == "start" {
			rr := r
			open = &rr
		} else {
			done = append(done, r)
			open = nil
		}
	}
	return done, open
}

func tailOf(p string, n int) string {
	b, err := os.ReadFile(p)
	if err != nil {
		return ""
	}
	// prefer the first panic / fatal error message over the plain tail
	s := string(b)
	for _, m := range []string{"CASE-WATCHDOG ", "panic: ", "fatal error: ", "WARNING: DATA RACE"} {
		if i := strings.Index(s, m); i >= 0 {
			e := i + n
			if e > len(s) {
				e = len(s)
			}
			out := s[i:e]
			// the input the worker announced last before it died
			if j := strings.LastIndex(s[:i], "VERIF-INPUT "); j >= 0 {
				line := s[j:i]
				if k := strings.IndexByte(line, '\n'); k >= 0 {
					line = line[:k]
				}
				if len(line) > 1500 {
					line = line[:1500]
				}
				out += "\n  last announced input: " + line
			}
			return out
		}
	}
	if len(s) > n {
		s = s[len(s)-n:]
	}
	return s
}

type evidence struct {
	PropertyID  string         `json:"property_id"`
	Tier        string         `json:"tier"`
	Seed        int64          `json:"seed"`
	Level       string         `json:"level"`
	Coverage    map[string]any `json:"coverage"`
	Assumptions []string       `json:"assumptions"`
	WallS       float64        `json:"wall_s"`
	Violations  int            `json:"violations"`
}

func finish(c Check, o Options, agg *Aggregate, n int, herrs []string, wall time.Duration) int {
	known := loadKnown(o.VerifDir, c.ID())
	all := append(append([]CaseResult{}, agg.Results...), agg.Crashed...)
	sort.Slice(all, func(i, j int) bool { return all[i].Idx < all[j].Idx })

	counters := map[string]int{}
	for k, v := range agg.ExtraCounts {
		counters[k] += v
	}
	distinct := map[string]bool{}
	nonTrivial := 0
	var samples []any
	type vio struct {
		idx  int
		seed uint64
		f    Finding
		tr   []string
	}
	var newVio, knownVio, inconc []vio
	for _, r := range all {
		for k, v := range r.Counters {
			counters[k] += v
		}
		if r.Hash != "" && !distinct[r.Hash] {
			distinct[r.Hash] = true
			if r.NonTrivial {
				nonTrivial++
			}
		}
		if r.Sample != nil && len(samples) < 4 {
			samples = append(samples, r.Sample)
		}
		for _, f := range r.Findings {
			v := vio{r.Idx, r.Seed, f, r.Trace}
			switch {
			case f.Verdict == Inconclusive:
				inconc = append(inconc, v)
			case matchKnown(known, f.Key) != "":
				knownVio = append(knownVio, v)
			default:
				newVio = append(newVio, v)
			}
		}
	}
	for _, f := range agg.Extra {
		v := vio{-1, 0, f, nil}
		switch {
		case f.Verdict == Inconclusive:
			inconc = append(inconc, v)
		case matchKnown(known, f.Key) != "":
			knownVio = append(knownVio, v)
		default:
			newVio = append(newVio, v)
		}
	}

	// print known findings (once per key)
	seenKnown := map[string]int{}
	for _, v := range knownVio {
		seenKnown[matchKnown(known, v.f.Key)]++
	}
	kk := []string{}
	for k := range seenKnown {
		kk = append(kk, k)
	}
	sort.Strings(kk)
	for _, k := range kk {
		fmt.Fprintf(Out, "KNOWN-FINDING: property=%s key=%s %s (observed %d times in this run)\n", c.ID(), k, known[k].What, seenKnown[k])
	}

	// violations: one replay file per distinct key (first witness), all listed in it
	exit := 0
	byKey := map[string][]vio{}
	for _, v := range newVio {
		byKey[v.f.Key] = append(byKey[v.f.Key], v)
	}
	keys := []string{}
	for k := range byKey {
		keys = append(keys, k)
	}
	sort.Strings(keys)
	repDir := filepath.Join(o.VerifDir, "replays")
	for _, k := range keys {
		vs := byKey[k]
		os.MkdirAll(repDir, 0o755)
		name := fmt.Sprintf("%s-%s-seed%d-case%d.json", c.ID(), sanitize(k), o.Seed, vs[0].idx)
		p := filepath.Join(repDir, name)
		rep := map[string]any{
			"property": c.ID(), "tier": o.Tier, "seed": o.Seed, "case": vs[0].idx, "case_seed": vs[0].seed,
			"key": k, "occurrences": len(vs), "detail": vs[0].f.Detail, "trace": vs[0].tr,
			"replay": fmt.Sprintf("cd /verif && VERIF_SEED=%d ./run %s %s --replay %s", o.Seed, c.ID(), o.Tier, p),
		}
		b, _ := json.MarshalIndent(rep, "", " ")
		os.WriteFile(p, b, 0o644)
		fmt.Fprintf(Out, "VIOLATION property=%s replay=%s\n", c.ID(), p)
		fmt.Fprintf(Out, "  key=%s occurrences=%d first: %s\n", k, len(vs), firstLines(vs[0].f.Detail, 12))
		exit = 1
	}
	if len(inconc) > 0 {
		ik := map[string]int{}
		first := map[string]string{}
		for _, v := range inconc {
			ik[v.f.Key]++
			if _, ok := first[v.f.Key]; !ok {
				first[v.f.Key] = fmt.Sprintf("case %d: %s", v.idx, firstLines(v.f.Detail, 6))
			}
		}
		for k, cnt := range ik {
			fmt.Fprintf(Out, "INCONCLUSIVE property=%s key=%s count=%d %s\n", c.ID(), k, cnt, first[k])
		}
	}

	cov := map[string]any{
		"evaluations":         len(all),
		"distinct_nontrivial": nonTrivial,
		"distinct_cases":      len(distinct),
		"rule":                c.Rule(),
		"samples":             samples,
		"counters":            counters,
		"inconclusive":        len(inconc),
		"known_findings_seen": seenKnown,
		"cases_planned":       n,
		"worker_crashes":      len(agg.Crashed),
	}
	if ex, ok := c.(Exhaustive); ok && ex.Exhaustive(o.Tier) {
		cov["exhaustive"] = true
	}
	ev := evidence{
		PropertyID: c.ID(), Tier: o.Tier, Seed: int64(o.Seed), Level: c.Level(), Coverage: cov,
		Assumptions: c.Assumptions(), WallS: wall.Seconds(), Violations: len(newVio),
	}
	os.MkdirAll(filepath.Join(o.VerifDir, "evidence"), 0o755)
	b, _ := json.MarshalIndent(ev, "", " ")
	if err := os.WriteFile(filepath.Join(o.VerifDir, "evidence", c.ID()+".json"), b, 0o644); err != nil {
		fmt.Fprintln(Out, "harness error: cannot write evidence:", err)
		return 2
	}
	fmt.Fprintf(Out, "%s %s seed=%d: cases=%d/%d distinct=%d nontrivial=%d violations=%d known=%d inconclusive=%d crashes=%d wall=%.1fs\n",
		c.ID(), o.Tier, o.Seed, len(all), n, len(distinct), nonTrivial, len(newVio), len(knownVio), len(inconc), len(agg.Crashed), wall.Seconds())
	ck := []string{}
	for k := range counters {
		ck = append(ck, k)
	}
	sort.Strings(ck)
	for _, k := range ck {
		fmt.Fprintf(Out, "  %-44s %d\n", k, counters[k])
	}
	if len(herrs) > 0 {
		for _, e := range herrs {
			fmt.Fprintln(Out, "harness error:", e)
		}
		if exit == 0 {
			return 2
		}
	}
	if exit == 0 && (len(all) < n || nonTrivial < 2) {
		fmt.Fprintf(Out, "harness error: the monitor observed too little (cases=%d/%d nontrivial=%d)\n", len(all), n, nonTrivial)
		return 2
	}
	return exit
}

func matchKnown(known map[string]knownFinding, key string) string {
	if _, ok := known[key]; ok {
		return key
	}
	return ""
}

func sanitize(s string) string {
	var b strings.Builder
	for _, r := range s {
		if (r >= 'a' && r <= 'z') || (r >= 'A' && r <= 'Z') || (r >= '0' && r <= '9') || r == '-' || r == '.' {
			b.WriteRune(r)
		} else {
			b.WriteByte('_')
		}
	}
	s = b.String()
	if len(s) > 80 {
		s = s[:80]
	}
	return s
}

func firstLines(s string, n int) string {
	l := strings.Split(s, "\n")
	if len(l) > n {
		l = append(l[:n], "...")
	}
	return strings.Join(l, "\n    ")
}

// RunSingle runs one case in-process and prints everything (replay).
func RunSingle(c Check, o Options) int {
	scratch, _ := os.MkdirTemp("", "vcheck-replay-")
	defer os.RemoveAll(scratch)
	w := &Worker{Tier: o.Tier, Seed: o.Seed, Scratch: scratch, Verbose: true}
	if err := c.Setup(w); err != nil {
		fmt.Fprintln(Out, "setup:", err)
		return 2
	}
	cs := CaseSeed(o.Seed, c.ID(), o.Only)
	res := &CaseResult{Idx: o.Only, Seed: cs, Status: "done"}
	runCaseRecover(c, w, o.Only, cs, res)
	for _, t := range res.Trace {
		fmt.Fprintln(Out, "  ", t)
	}
	known := loadKnown(o.VerifDir, c.ID())
	rc := 0
	for _, f := range res.Findings {
		tag := strings.ToUpper(f.Verdict)
		if f.Verdict == Violated && matchKnown(known, f.Key) != "" {
			tag = "KNOWN-FINDING"
		} else if f.Verdict == Violated {
			rc = 1
		}
		fmt.Fprintf(Out, "%s key=%s\n  %s\n", tag, f.Key, f.Detail)
	}
	if rc == 1 {
		fmt.Fprintf(Out, "VIOLATION property=%s replay=(this case)\n", c.ID())
	} else {
		fmt.Fprintf(Out, "case %d: no new violation\n", o.Only)
	}
	return rc
}

func EnvSeed() uint64 { return envSeed() }

// RaceReport is one deduplicated race detector report found in the worker race logs.
type RaceReport struct {
	Key   string // sorted pair of the innermost code-under-test functions of the two accesses
	Text  string // first report of this key
	Count int
}

// ParseRaceLogs reads the race detector logs the workers wrote (GORACE log_path=<scratch>/race) and
// deduplicates the reports by the pair of innermost frames inside modulePrefix (line numbers stripped).
// Reports without any frame inside modulePrefix get the key "harness-only".
func ParseRaceLogs(scratch, modulePrefix string) []RaceReport {
	files, _ := filepath.Glob(filepath.Join(scratch, "race.*"))
	sort.Strings(files)
	byKey := map[string]*RaceReport{}
	var order []string
	for _, f := range files {
		b, err := os.ReadFile(f)
		if err != nil {
			continue
		}
		for _, blk := range strings.Split(string(b), "==================") {
			if !strings.Contains(blk, "WARNING: DATA RACE") {
				continue
			}
			key := raceKey(blk, modulePrefix)
			if r, ok := byKey[key]; ok {
				r.Count++
				continue
			}
			byKey[key] = &RaceReport{Key: key, Text: strings.TrimSpace(blk), Count: 1}
			order = append(order, key)
		}
	}
	sort.Strings(order)
	out := []RaceReport{}
	for _, k := range order {
		out = append(out, *byKey[k])
	}
	return out
}

func raceKey(blk, modulePrefix string) string {
	// the report has sections separated by empty lines; the first two are the conflicting accesses
	secs := strings.Split(strings.TrimSpace(blk), "\n\n")
	var fns []string
	for _, sec := range secs {
		if len(fns) == 2 {
			break
		}
		head := strings.TrimSpace(sec)
		if !(strings.Contains(head, " at 0x") && strings.Contains(head, "by ")) {
			continue
		}
		fn := "?"
		for _, line := range strings.Split(sec, "\n") {
			l := strings.TrimSpace(line)
			if strings.HasPrefix(l, modulePrefix) && !strings.Contains(l, "/verifhook.") {
				if i := strings.LastIndex(l, "("); i > 0 {
					l = l[:i]
				}
				fn = strings.TrimPrefix(l, modulePrefix)
				break
			}
		}
		fns = append(fns, fn)
	}
	if len(fns) == 0 {
		return "unparsed"
	}
	all := true
	for _, f := range fns {
		if f != "?" {
			all = false
		}
	}
	if all {
		return "harness-only"
	}
	sort.Strings(fns)
	return strings.Join(fns, "~")
}
