package main

import (
	"encoding/json"
	"fmt"
	"os"
	"strconv"

	_ "verifharness/internal/checks"
	"verifharness/internal/core"
)

func usage() {
	fmt.Fprintf(os.Stderr, "usage: vcheck <property> <quick|thorough> [--replay file | --case n]\n       known: %v\n", core.IDs())
	os.Exit(2)
}

func main() {
	if len(os.Args) < 3 {
		usage()
	}
	if os.Args[1] == "worker" {
		// worker <id> <tier> <seed> <from> <to> <stride> <out> <scratch>
		a := os.Args[2:]
		c := core.Lookup(a[0])
		seed, _ := strconv.ParseUint(a[2], 10, 64)
		from, _ := strconv.Atoi(a[3])
		to, _ := strconv.Atoi(a[4])
		stride, _ := strconv.Atoi(a[5])
		os.Exit(core.RunWorker(c, a[1], seed, from, to, stride, a[6], a[7]))
	}
	c := core.Lookup(os.Args[1])
	if c == nil {
		usage()
	}
	tier := os.Args[2]
	if tier != "quick" && tier != "thorough" {
		usage()
	}
	verifDir := os.Getenv("VERIF_DIR")
	if verifDir == "" {
		verifDir = "/verif"
	}
	o := core.Options{Tier: tier, Seed: core.EnvSeed(), VerifDir: verifDir, Only: -1}
	if v := os.Getenv("VERIF_WORKERS"); v != "" {
		o.Workers, _ = strconv.Atoi(v)
	}
	for i := 3; i < len(os.Args); i++ {
		switch os.Args[i] {
		case "--replay":
			if i+1 >= len(os.Args) {
				usage()
			}
			b, err := os.ReadFile(os.Args[i+1])
			if err != nil {
				fmt.Println(err)
				os.Exit(2)
			}
			var rep struct {
				Seed uint64 `json:"seed"`
				Case int    `json:"case"`
				Tier string `json:"tier"`
			}
			if err := json.Unmarshal(b, &rep); err != nil {
				fmt.Println(err)
				os.Exit(2)
			}
			o.Seed, o.Only, o.Tier = rep.Seed, rep.Case, rep.Tier
			i++
		case "--case":
			o.Only, _ = strconv.Atoi(os.Args[i+1])
			i++
		}
	}
	if o.Only >= 0 {
		os.Exit(core.RunSingle(c, o))
	}
	os.Exit(core.RunParent(c, o))
}
