#!/bin/bash
# [PROPS="C01 C02"] sweep.sh <tier> <seed> [seed...] : runs every claimed check at the given seeds, prints one line per run, exit 1 if any run is not rc 0.
cd "$(dirname "$0")/.." || exit 2
tier="$1"; shift
bad=0
for seed in "$@"; do
  for p in ${PROPS:-$(python3 -c "import json;print(' '.join(c['property_id'] for c in json.load(open('MANIFEST.json'))['checks']))")}; do
    out=$(VERIF_SEED=$seed ./run $p $tier 2>&1); rc=$?
    line=$(echo "$out" | grep -E "^$p $tier seed=" | tail -1)
    echo "seed=$seed rc=$rc $line"
    if [ $rc -ne 0 ]; then bad=1; echo "$out" | grep -E "VIOLATION|INCONCLUSIVE|harness error|key=" | head -8; fi
  done
done
exit $bad
