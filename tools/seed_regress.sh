#!/bin/bash
# tools/seed_regress.sh [seed-id...]: for every stored seeded change (default: all) try to apply it to a scratch worktree of
# /repo's HEAD and run the quick check of its property (plus the checks named in caught_by) against it.
# One line per seed: CAUGHT / MISSED / STALE (patch no longer applies at HEAD). Never touches /repo's working tree.
cd "$(dirname "$0")/.." || exit 2
ids="$@"; [ -z "$ids" ] && ids=$(ls seeded | grep -E '^C[0-9]+-[0-9]+$')
for id in $ids; do
  sd="seeded/$id"
  prop=$(python3 -c "import json;print(json.load(open('$sd/meta.json'))['property'])")
  extra=$(python3 -c "
import json,re
m=json.load(open('$sd/meta.json'))
ps=[]
for c in m.get('caught_by',[]):
    for x in re.findall(r'\bC\d\d\b',c):
        if x not in ps and x!='$prop': ps.append(x)
print(' '.join(ps[:2]))")
  wt=$(mktemp -d /tmp/wt.reg.XXXXXX); rmdir "$wt"
  git -C /repo worktree add -q --detach "$wt" HEAD || exit 2
  if ! git -C "$wt" apply "$PWD/$sd/patch.diff" 2>/dev/null; then
    echo "$id STALE (patch does not apply at $(git -C /repo rev-parse --short HEAD))"
  else
    verdict="MISSED"; detail=""
    for p in $prop $extra; do
      out=$(tools/run_against.sh "$wt" $p quick 2>&1)
      n=$(echo "$out" | grep -c '^VIOLATION')
      keys=$(echo "$out" | grep -o '^  key=[^ ]*' | sort -u | head -3 | tr '\n' ' ')
      detail="$detail $p:$n"
      if [ "$n" -gt 0 ]; then verdict="CAUGHT"; detail="$detail [$keys]"; break; fi
    done
    echo "$id $verdict$detail"
  fi
  git -C /repo worktree remove --force "$wt"
done
git -C /repo worktree prune
