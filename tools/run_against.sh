#!/bin/bash
# tools/run_against.sh <repo-dir> <Cxx> <tier> [args]: runs a check against another copy of data-server (a scratch worktree);
# never used by a registered command. Evidence and replays go to a scratch VERIF_DIR so that /verif stays untouched.
set -u
dir="$1"; shift
cd "$(dirname "$0")/../harness" || exit 2
export GOFLAGS=-mod=mod GOPROXY=off GOSUMDB=off GOTOOLCHAIN=local
tmp=$(mktemp -d /tmp/ra.XXXXXX)
trap 'rm -rf "$tmp"' EXIT
sed "s#=> /repo#=> $dir#" go.mod > "$tmp/go.mod"
cat "$dir/go.sum" go.sum.extra > "$tmp/go.sum" 2>/dev/null
race=""
case "$1" in C16|C17) race="-race";; esac
go build -modfile="$tmp/go.mod" -tags verif $race -o "$tmp/vcheck" ./cmd/vcheck || exit 2
mkdir -p "$tmp/vd/evidence" "$tmp/vd/replays"
cp ../known_findings.txt "$tmp/vd/" 2>/dev/null
export VERIF_DIR="$tmp/vd" VERIF_TIER="${2:-quick}"
"$tmp/vcheck" "$@" | { if [ -n "${RA_FULL:-}" ]; then cat; else grep -v "^   "; fi; }
exit ${PIPESTATUS[0]}
