#!/usr/bin/env python3
"""Generates MANIFEST.json from tools/manifest_src.json (claimed checks) + properties.jsonl."""
import json,sys,os
here=os.path.dirname(os.path.abspath(__file__))
root=os.path.dirname(here)
src=json.load(open(os.path.join(here,'manifest_src.json')))
props=[json.loads(l)['id'] for l in open(os.path.join(root,'properties.jsonl'))]
checks=[]
for pid in props:
    c=src['checks'].get(pid)
    if not c: continue
    checks.append({
        "property_id":pid,
        "quick_cmd":f"./run {pid} quick",
        "thorough_cmd":f"./run {pid} thorough",
        "evidence_file":f"/verif/evidence/{pid}.json",
        "replay_cmd_template":f"./run {pid} quick --replay {{path}}",
        "engine":"vcheck",
        "level_claimed":{"category":c["level"],"text":c["text"],"design_ref":c.get("design_ref","DESIGN.md section 5, "+pid)},
        "level_note":c["note"],
        "technique":c["technique"],
    })
na=[{"property_id":pid,"reason":src['not_applicable'].get(pid,"check not built yet in this round; see DESIGN.md section 5 for the planned monitor")} for pid in props if pid not in src['checks']]
m={"version":1,
 "setup_cmd":"./tools/setup.sh",
 "hooks":{"guard":"verif","enable":"go build -tags verif (the harness module replaces github.com/sdcio/data-server with /repo, so ./run compiles /repo's working tree with the tag on)",
          "baseline_off_cmd":"./tools/baseline_off.sh","source_commits":src.get("hook_commits",[]),"add_only":True},
 "engines":[{"name":"vcheck","path":"/verif/harness","serves_properties":[c["property_id"] for c in checks],
   "kind_free_text":"Go harness linked against /repo (build tag verif): real datastore + real badger cache + real schema store driven by PRNG-determined hostile workloads in worker child processes; monitors (reference-model oracles over recorded API/southbound events, store dumps, race detector, controlled scheduler) decide"}],
 "checks":checks,
 "notes":src.get("notes",""),
 "not_applicable":na}
json.dump(m,open(os.path.join(root,'MANIFEST.json'),'w'),indent=1)
print("checks:",[c['property_id'] for c in checks],"not claimed:",[n['property_id'] for n in na])
