#!/bin/bash
# Builds the harness once (warms the Go build cache). Offline; reads only files on disk.
export GOFLAGS=-mod=mod GOPROXY=off GOSUMDB=off GOTOOLCHAIN=local
cd "$(dirname "$0")/../harness" || exit 1
cp /repo/go.sum go.sum.new && cat go.sum.extra >> go.sum.new 2>/dev/null; mv go.sum.new go.sum
mkdir -p bin
go build -tags verif -o bin/vcheck.setup ./cmd/vcheck && go build -tags verif -race -o bin/vcheck.setup.race ./cmd/vcheck
rc=$?
rm -f bin/vcheck.setup bin/vcheck.setup.race
exit $rc
