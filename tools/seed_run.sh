#!/bin/bash
# seed_run.sh <seed-dir under /verif/seeded> <property> [more properties...]
# Applies the seeded change to /repo, runs the quick checks, reverts. Prints one line per check.
sd="/verif/seeded/$1"; shift
[ -n "$(git -C /repo status --porcelain --untracked-files=no)" ] && { echo "/repo is dirty"; exit 2; }
git -C /repo apply "$sd/patch.diff" || exit 2
for p in "$@"; do
  out=$(cd /verif && timeout 1500 ./run $p quick 2>&1); rc=$?
  echo "$p rc=$rc $(echo "$out" | grep -c '^VIOLATION') violation keys: $(echo "$out" | grep -o 'key=[^ ]*' | sort -u | tr '\n' ' ')"
done
git -C /repo checkout -- .
# evidence files were rewritten by runs on a mutated tree: restore the committed ones
git -C /verif checkout -- evidence 2>/dev/null
