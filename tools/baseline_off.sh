#!/bin/bash
# Runs the repository's pinned test suite with the verif guard OFF and compares with BASELINE.json stable_pass.
export GOFLAGS=-mod=mod GOPROXY=off GOSUMDB=off GOTOOLCHAIN=local
cd /repo || exit 2
out=$(mktemp)
go test -mod=mod -json -vet=off -count=1 -timeout 25m ./... > "$out" 2>/dev/null
python3 - "$out" <<'PY'
import json,sys
passed=set(); failed=set()
for l in open(sys.argv[1]):
    try: e=json.loads(l)
    except Exception: continue
    if e.get('Test') and e.get('Action') in('pass','fail'):
        (passed if e['Action']=='pass' else failed).add(e['Package']+'::'+e['Test'])
base=set(json.load(open('/root/.vp/BASELINE.json'))['stable_pass'])
missing=sorted(base-passed)
print(f"baseline={len(base)} passed={len(passed)} failed={len(failed)} baseline_not_passed={len(missing)}")
for m in missing[:20]: print("  NOT PASSED:",m)
sys.exit(1 if missing else 0)
PY
rc=$?
rm -f "$out"
exit $rc
