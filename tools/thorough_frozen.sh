#!/bin/bash
# tools/thorough_frozen.sh <seed> <Cxx...>: thorough tier of the given checks against a frozen scratch worktree of /repo's HEAD
# (so that /repo stays free for other work); one summary line per check on stdout. Not used by any registered command.
seed="$1"; shift
wt=/tmp/wt/frozen.$$
mkdir -p /tmp/wt
git -C /repo worktree add -q --detach "$wt" HEAD || exit 2
trap 'git -C /repo worktree remove --force "$wt"; git -C /repo worktree prune' EXIT
for p in "$@"; do
  t0=$(date +%s)
  out=$(VERIF_SEED=$seed "$(dirname "$0")/run_against.sh" "$wt" $p thorough 2>&1); rc=$?
  echo "seed=$seed $p rc=$rc $(( $(date +%s) - t0 ))s $(echo "$out" | grep 'thorough seed' | sed 's/.*cases=/cases=/')"
  echo "$out" | grep -E '^VIOLATION|^INCONCLUSIVE|^  key=' | cut -c1-400
done
