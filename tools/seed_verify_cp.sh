#!/bin/bash
# seed_verify_cp.sh <worktree> <demo file under _seed> <package dir to copy it into> <go test args...>
# Like seed_verify.sh for demonstrations that have to live inside a package of the repository.
export GOFLAGS=-mod=mod GOPROXY=off GOSUMDB=off GOTOOLCHAIN=local
wt="$1"; demo="$2"; pkg="$3"; shift 3
cd "$wt" || exit 2
git checkout -q -- . 2>/dev/null
git apply --check _seed/patch.diff || { echo "PATCH DOES NOT APPLY"; exit 1; }
git apply _seed/patch.diff
go build ./... && go build -tags verif ./... || { echo "BUILD FAILS"; exit 1; }
fails=$(go test -vet=off -count=1 ./... 2>&1 | grep -E "^--- FAIL" | grep -v expandUpdateLeafAsKeys)
[ -n "$fails" ] && { echo "SUITE FAILS WITH CHANGE: $fails"; exit 1; }
echo "suite passes with the change"
cp "_seed/$demo" "$pkg/"
go test -tags verif -vet=off -count=1 "$@" "./$pkg/" > /tmp/seed_with.txt 2>&1; rc_with=$?
git apply -R _seed/patch.diff
go test -tags verif -vet=off -count=1 "$@" "./$pkg/" > /tmp/seed_without.txt 2>&1; rc_without=$?
rm -f "$pkg/$(basename $demo)"
echo "demo with change rc=$rc_with (want !=0); without rc=$rc_without (want 0)"
[ $rc_with -ne 0 ] && [ $rc_without -eq 0 ] && echo "SEED CONFIRMED" || { echo "SEED NOT CONFIRMED"; tail -n 5 /tmp/seed_with.txt /tmp/seed_without.txt; exit 1; }
