#!/bin/bash
# tools/seed_try.sh <patch file> <Cxx> [more...]: applies a seeded change to a scratch worktree of /repo's HEAD (never to
# /repo itself), runs the quick checks against it and removes the worktree. Safe while a sweep reads /repo.
patch="$1"; shift
wt=$(mktemp -d /tmp/wt.try.XXXXXX); rmdir "$wt"
git -C /repo worktree add -q --detach "$wt" HEAD || exit 2
trap 'git -C /repo worktree remove --force "$wt"; git -C /repo worktree prune' EXIT
git -C "$wt" apply "$patch" || { echo "PATCH DOES NOT APPLY at HEAD"; exit 2; }
for p in "$@"; do
  out=$("$(dirname "$0")/run_against.sh" "$wt" $p quick 2>&1)
  echo "$p: $(echo "$out" | grep -c '^VIOLATION') violation keys: $(echo "$out" | grep -o '^  key=[^ ]*' | sort -u | tr '\n' ' ') | $(echo "$out" | grep 'quick seed' | sed 's/.*cases=/cases=/')"
done
