#!/bin/bash
# seed_verify.sh <worktree> <demo go-test package path relative to worktree>
# Confirms in the scratch worktree: patch applies at HEAD, builds, suite passes with it, demo fails with it and passes without it.
export GOFLAGS=-mod=mod GOPROXY=off GOSUMDB=off GOTOOLCHAIN=local
wt="$1"; demo="$2"
cd "$wt" || exit 2
git checkout -q -- . 2>/dev/null
git apply --check _seed/patch.diff || { echo "PATCH DOES NOT APPLY"; exit 1; }
git apply _seed/patch.diff
go build ./... && go build -tags verif ./... || { echo "BUILD FAILS"; exit 1; }
fails=$(go test -vet=off -count=1 ./... 2>&1 | grep -E "^--- FAIL" | grep -v expandUpdateLeafAsKeys)
[ -n "$fails" ] && { echo "SUITE FAILS WITH CHANGE: $fails"; exit 1; }
echo "suite passes with the change"
go test -tags verif -vet=off -count=1 $demo > /tmp/seed_with.txt 2>&1; rc_with=$?
git apply -R _seed/patch.diff
go test -tags verif -vet=off -count=1 $demo > /tmp/seed_without.txt 2>&1; rc_without=$?
echo "demo with change rc=$rc_with (want !=0); without rc=$rc_without (want 0)"
[ $rc_with -ne 0 ] && [ $rc_without -eq 0 ] && echo "SEED CONFIRMED" || { echo "SEED NOT CONFIRMED"; tail -5 /tmp/seed_with.txt /tmp/seed_without.txt; exit 1; }
